#!/usr/bin/env python3
"""Compare a junit xml of the repository test run with BASELINE.json stable_pass."""
import json, sys, xml.etree.ElementTree as ET
base = set(json.load(open("/root/.vp/BASELINE.json"))["stable_pass"])
t = ET.parse(sys.argv[1])
passed = set()
for tc in t.iter("testcase"):
    if any(ch.tag in ("failure", "error", "skipped") for ch in tc):
        continue
    passed.add("%s::%s" % (tc.get("classname"), tc.get("name")))
missing = sorted(base - passed)
print("baseline %d, passed now %d, missing %d" % (len(base), len(passed & base), len(missing)))
for m in missing[:20]:
    print("  MISSING", m)
sys.exit(1 if missing else 0)
