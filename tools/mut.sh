#!/bin/sh
# tools/mut.sh <file under /repo> <sed expr> <vcheck args...> : apply a sed mutation, run check, undo.
F="$1"; E="$2"; shift; shift
sed -i "$E" "/repo/$F"
if git -C /repo diff --quiet; then echo "mutation did not change anything"; exit 9; fi
cd "$(dirname "$0")/.."
./vcheck "$@" 2>&1 | grep -E "^prop|VIOL|INCON|KNOWN" | head -8
git -C /repo checkout -- .
