#!/usr/bin/env python3
"""Regenerates MANIFEST.json from the table below (kept in one place so it stays valid)."""
import json
import os

HERE = os.path.dirname(os.path.dirname(os.path.abspath(__file__)))
BASELINE = ("cd /repo && /venv/bin/python -m pytest -ra -q -p no:cacheprovider --timeout=900 "
            "--continue-on-collection-errors")

# id -> (technique, level text, level note, design ref)
CHECKS = {}


def add(pid, technique, text, note, ref, engine="crosshair+z3"):
    CHECKS[pid] = dict(technique=technique, text=text, note=note, ref=ref, engine=engine)


NOT_APPLICABLE = {}

exec(open(os.path.join(HERE, "tools", "manifest_table.py")).read())

checks = []
for pid in sorted(CHECKS):
    c = CHECKS[pid]
    checks.append({
        "property_id": pid,
        "quick_cmd": "./vcheck %s --tier quick" % pid,
        "thorough_cmd": "./vcheck %s --tier thorough" % pid,
        "evidence_file": "/verif/evidence/%s.json" % pid,
        "replay_cmd_template": "./vcheck %s --replay {path}" % pid,
        "engine": c["engine"],
        "level_claimed": {"category": "model_checking", "text": c["text"], "design_ref": c["ref"]},
        "level_note": c["note"],
        "technique": c["technique"],
    })

manifest = {
    "version": 1,
    "setup_cmd": "./tools/bootstrap.sh",
    "hooks": {
        "guard": "TOPHATMONOCLE_PYSAML2_VERIF",
        "enable": "none needed: all instrumentation is harness-side (import hook + module-global stubs); /repo carries no hooks",
        "baseline_off_cmd": BASELINE,
        "source_commits": [],
        "add_only": True,
    },
    "engines": [
        {"name": "crosshair+z3", "path": "/verif/.venv/bin/crosshair",
         "serves_properties": sorted(CHECKS),
         "kind_free_text": "bounded symbolic execution of the real Python functions (CrossHair 0.0.110) with z3 deciding every branch; "
                           "partitioned conditions, reachability twins, concrete replay of counterexamples"},
    ],
    "checks": checks,
    "not_applicable": [{"property_id": k, "reason": v} for k, v in sorted(NOT_APPLICABLE.items())],
    "notes": "Exit codes: 0 held within the stated bounds (KNOWN-FINDING lines allowed), 1 VIOLATION (replayed, unlisted), "
             "3 inconclusive / vacuous / non-replaying counterexample (never reported as success). See DESIGN.md.",
}
json.dump(manifest, open(os.path.join(HERE, "MANIFEST.json"), "w"), indent=1)
print("MANIFEST.json written:", len(checks), "checks,", len(NOT_APPLICABLE), "not applicable")
