#!/bin/bash
# tools/try_seed.sh <seed-dir-name> <vcheck args...> : run a check against a seeded change in a private scratch worktree
d=$(basename $1); shift
WT=/tmp/seedrun/wt_$$
mkdir -p /tmp/seedrun; git -C /repo worktree add --detach $WT HEAD >/dev/null 2>&1
git -C $WT apply /verif/seeded/$d/patch.diff || { echo "patch does not apply"; git -C /repo worktree remove --force $WT; exit 9; }
cd /verif
VERIF_EVIDENCE_DIR=/tmp/seedrun/ev_$$ VERIF_REPO_SRC=$WT/src ./vcheck "$@" 2>&1 | grep -E "^property=|^VIOLATION|^KNOWN|^INCONCLUSIVE"
git -C /repo worktree remove --force $WT; rm -rf /tmp/seedrun/ev_$$
