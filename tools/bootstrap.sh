#!/bin/sh
# Idempotent offline bootstrap: overlay venv of /venv with crosshair-tool from the wheelhouse.
set -e
HERE="$(cd "$(dirname "$0")/.." && pwd)"
V="$HERE/.venv"
if [ -x "$V/bin/crosshair" ] && "$V/bin/python" -c "import crosshair, z3, saml2_tophat" 2>/dev/null; then
    exit 0
fi
# serialise concurrent bootstraps
exec 9>"$HERE/.bootstrap.lock"
flock 9
if [ -x "$V/bin/crosshair" ] && "$V/bin/python" -c "import crosshair, z3, saml2_tophat" 2>/dev/null; then
    exit 0
fi
rm -rf "$V"
/venv/bin/python -m venv "$V"
SP="$("$V/bin/python" -c 'import sysconfig; print(sysconfig.get_paths()["purelib"])')"
printf '%s\n' "import site; site.addsitedir('/venv/lib/python3.12/site-packages')" > "$SP/_verif_overlay.pth"
PIP_NO_INDEX=1 "$V/bin/pip" install -q --no-index --find-links /opt/veriftools/wheels crosshair-tool >/dev/null
"$V/bin/python" -c "import crosshair, z3, saml2_tophat; print('bootstrap ok', z3.get_version_string())"
