#!/bin/sh
# tools/try_patch.sh <patch.diff> <vcheck args...> : apply a patch to /repo, run the check, always undo.
P="$(realpath "$1")"; shift
git -C /repo apply "$P" || { echo "patch does not apply"; exit 9; }
cd "$(dirname "$0")/.."
./vcheck "$@"
rc=$?
git -C /repo checkout -- . 
echo "try_patch: exit=$rc"
exit $rc
