#!/bin/bash
# tools/confirm_seed.sh <ID> <X> <slug> : confirm an agent-produced change in its scratch worktree
# (demo passes pristine / fails patched; baseline tests still pass with the patch), then file it
# under /verif/seeded/<ID>-<slug>/ .
set -u
ID="$1"; X="$2"; SLUG="$3"
S=/tmp/seed/$ID; WT=$S/wt; O=$S/out/$X
git -C $WT checkout -q -- . ; git -C $WT clean -fdq
export PYTHONPATH=$WT/src
cd $O
/venv/bin/python demo.py > $O/demo_pristine.log 2>&1; r0=$?
git -C $WT apply $O/patch.diff || { echo "patch does not apply"; exit 9; }
/venv/bin/python demo.py > $O/demo_patched.log 2>&1; r1=$?
cd $WT
/venv/bin/python -m pytest -q -p no:cacheprovider --timeout=900 --continue-on-collection-errors --junitxml=$O/junit.xml > $O/tests.log 2>&1
python3 /verif/tools/baseline_check.py $O/junit.xml > $O/baseline.log 2>&1; rb=$?
git -C $WT checkout -q -- . ; git -C $WT clean -fdq
echo "$ID/$X demo_pristine=$r0 demo_patched=$r1 baseline_ok=$rb ($(tail -1 $O/baseline.log | head -c 80)) $(tail -1 $O/tests.log)"
if [ $r0 -eq 0 ] && [ $r1 -ne 0 ] && [ $rb -eq 0 ]; then
  D=/verif/seeded/$ID-$SLUG; mkdir -p $D
  cp $O/patch.diff $O/demo.py $D/; cp $O/notes.md $D/notes.md 2>/dev/null
  echo "CONFIRMED -> $D"
else
  echo "NOT CONFIRMED"
fi
