#!/bin/bash
# tools/seed_sweep.sh [dir ...] : run the owning property's quick check against each seeded change
# in a scratch worktree (VERIF_REPO_SRC), record seeded/<dir>/result.txt
cd /verif
WT=/tmp/seedrun/wt
if [ ! -d $WT ]; then mkdir -p /tmp/seedrun; git -C /repo worktree add --detach $WT HEAD >/dev/null 2>&1; fi
git -C $WT checkout -q --detach $(git -C /repo rev-parse HEAD); git -C $WT checkout -q -- .
DIRS="$@"; [ -z "$DIRS" ] && DIRS=$(ls seeded)
for d in $DIRS; do
  d=$(basename $d); P=${d%%-*}
  [ -f seeded/$d/patch.diff ] || continue
  git -C $WT checkout -q -- .
  if ! git -C $WT apply /verif/seeded/$d/patch.diff 2>/dev/null; then echo "$d: PATCH DOES NOT APPLY" | tee seeded/$d/result.txt; continue; fi
  t0=$(date +%s)
  out=$(VERIF_EVIDENCE_DIR=/tmp/seedrun/ev VERIF_JOBS=${VERIF_JOBS:-8} VERIF_REPO_SRC=$WT/src ./vcheck $P --tier ${TIER:-quick} 2>&1 | grep -E "^property=|^VIOLATION|^KNOWN" )
  rc=$(echo "$out" | grep -o "exit=[0-9]*" | tail -1)
  nv=$(echo "$out" | grep -c "^VIOLATION")
  echo "$d: $rc violations=$nv wall=$(( $(date +%s) - t0 ))s :: $(echo "$out" | grep '^property=' | tail -1)" | tee seeded/$d/result.txt
  git -C $WT checkout -q -- .
done
