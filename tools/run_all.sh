#!/bin/bash
# tools/run_all.sh <quick|thorough> [ids...] : run checks in sequence against /repo, log exit codes and wall time.
# Thorough evidence is additionally kept under evidence/thorough/ (the per-property evidence file is
# rewritten by whichever tier ran last).
cd /verif
TIER=${1:-quick}; shift
IDS="$@"; [ -z "$IDS" ] && IDS=$(python3 -c "import json;print(' '.join(c['property_id'] for c in json.load(open('MANIFEST.json'))['checks']))")
for id in $IDS; do
  t0=$(date +%s)
  out=$(./vcheck $id --tier $TIER 2>&1 | grep -E "^property=|^VIOLATION|^KNOWN|^INCONCLUSIVE" | tail -8)
  echo "$id $TIER wall=$(( $(date +%s) - t0 ))s :: $(echo "$out" | grep '^property=' | tail -1)"
  echo "$out" | grep -E "^VIOLATION|^INCONCLUSIVE" | head -4
  if [ "$TIER" = thorough ]; then mkdir -p evidence/thorough; cp evidence/$id.json evidence/thorough/$id.json; fi
done
