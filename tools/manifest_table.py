# Table consumed by gen_manifest.py: add(pid, technique, level text, level note, design ref)
add("C04",
    "CrossHair symbolic execution of condition_ok/_bearer_confirmed/authn_statement_ok/issue_instant_ok/session_info through AuthnResponse.loads+verify with seven symbolic instants; z3 decides every clock position",
    "Bounded symbolic execution of the real validity-window code: for every integer placement of now, slack and the seven instants inside the stated ranges and every presence subset, "
    "acceptance implies every present bound is respected, roomy profile-shaped responses are accepted, and session_info reports the documented expiry. Confirmed over all paths per partition, each with a reachability twin.",
    "Trusted: CrossHair/z3; integer clock model replacing strptime/timegm/gmtime (monotone bijection at 1 s); parsed-object hand-over instead of expat; AST cuts of log/message formatting. Outside: ties, sub-second, slack > 10 y.",
    "DESIGN.md 3/C04")

NOT_APPLICABLE.update({
    "C11": "deciding code is expat/defusedxml (C) reacting to document text plus a syntactic inventory of parser call sites; "
           "neither can be executed symbolically nor is a solver question (DESIGN.md 3/C11)",
})
for _p in ("C01", "C02", "C03", "C05", "C06", "C07", "C08", "C09", "C10", "C12", "C13", "C14", "C15", "C16", "C17", "C18", "C19", "C20"):
    NOT_APPLICABLE.setdefault(_p, "check under construction in this build round; not yet claimed")
