# Table consumed by gen_manifest.py: add(pid, technique, level text, level note, design ref)
_CH = "CrossHair (bounded symbolic execution of the real Python functions, z3 deciding every branch)"

add("C01",
    _CH + " of Saml2Client.parse_authn_request_response over a generated family of signature-wrapping documents, with xmlsec1 replaced by a digest-faithful in-process model; identity oracle",
    "For assertion-, response- and both-signed originals and every generated rewrite (in-place edits; Signature moved to another element; assertion swapped for an EncryptedAssertion that opens to an unsigned one; "
    "evil Assertion / evil wrapping Response with fresh or duplicate ID carrying no / copied / forged / both Signatures, the original dropped or relocated to 6 places, with or without its own Signature) under 4 "
    "signature-requiring option settings, and for two-/three-document histories on one SP object: whenever the SP accepts, the subject and attribute value it reads are the signed ones; the pristine document is accepted exactly when what is required is signed.",
    "Decisive assumption: the xmlsec1 contract in harness/xmlsecmodel.py (ID registration per element name, first-wins duplicates, first Signature in document order, same-document dereference, enveloped transform). "
    "Documents are concrete per path (generator indices symbolic). Trusted: CrossHair/z3, clock model, AST cuts.",
    "DESIGN.md 3/C01")
add("C02",
    _CH + " of Saml2Client.parse_authn_request_response -> Entity._parse_response -> AuthnResponse over the whole signature-requirement table with symbolic options and verdicts",
    "Exhaustive over the finite table (3 options x what is signed x verdict of each present signature x plain/encrypted): acceptance equals the documented predicate (every present signature verifies and every enabled requirement is met by a present signature), through the public client entry point on really parsed documents.",
    "Trusted: CrossHair/z3; xmlsec1 replaced by a stub backend answering per node id (contract: True or SignatureError; decrypt returns prepared plaintext); fixed clock; AST cuts.",
    "DESIGN.md 3/C02")
add("C03",
    _CH + " of SecurityContext._check_signature with a real MetadataStore (certs / extract_certs) over symbolic key-descriptor uses, claimed issuer, caller-supplied outer issuer, actual signing certificate, embedded certificate and only_use_keys_in_metadata, also after earlier certificate look-ups (entity x use) on the same store",
    "For every assignment of key uses in a two-entity federation, claimed Issuer (own, other entity, unknown, absent, padded), outer issuer, actual signing key (any metadata certificate or an embedded-only one), embedded KeyInfo certificate and flag value: "
    "accepted iff the signing certificate is a signing/unspecified-use certificate of the effective issuer, or (flag off and the issuer has none) equals the embedded one; no other certificate is even tried; MissingKey when the flag is on and metadata has no key.",
    "Trusted: CrossHair/z3 (index enumeration); xmlsec1 by contract (verifies iff handed the signer's certificate); object-level metadata; fake temp files.",
    "DESIGN.md 3/C03")
add("C04",
    _CH + " of condition_ok/_bearer_confirmed/authn_statement_ok/issue_instant_ok/session_info through AuthnResponse.loads+verify with seven symbolic instants; z3 decides every clock position",
    "For every integer placement of now, slack and the seven instants inside the stated ranges and every presence subset, acceptance implies every present bound is respected, roomy profile-shaped responses are accepted, and session_info reports the documented expiry. Confirmed over all paths per partition, each with a reachability twin.",
    "Trusted: CrossHair/z3; integer clock model replacing strptime/timegm/gmtime (monotone bijection at 1 s); parsed-object hand-over instead of expat; AST cuts of log/message formatting. Outside: ties, sub-second, slack > 10 y.",
    "DESIGN.md 3/C04")
add("C05",
    _CH + " of AuthnResponse.loads/verify (solicitation, destination, audience, recipient checks) on handed-over objects; Destination also as a symbolic string decided by z3",
    "Over InResponseTo x 1-2 bearer confirmations (InResponseTo same / unknown / absent / another outstanding request; 5 Recipients) x Destination near-miss catalogue x 0-2 AudienceRestrictions x allow_unsolicited x conv_info x destination pattern: "
    "acceptance implies every clause of the property, conforming responses are accepted and routed to the right caller; every Destination string of <= 40 chars decided by z3.",
    "Trusted: CrossHair/z3; parsed-object hand-over; fixed valid clock; AST cuts. Catalogues are finite (listed in evidence bounds); dest_string cuts schema validation.",
    "DESIGN.md 3/C05")
add("C06",
    _CH + " of status_ok/_verify/verify over the finite status x second-level x version table (exception class compared with an independently written table) and with Version as an arbitrary symbolic string",
    "Every non-Success status and every Version other than exactly '2.0' (16-entry catalogue incl. strings float() equates with 2.0; any string <= 4 chars) is rejected without identity, with the documented exception class per standard second-level code; Success+2.0 is accepted. Responses and three request classes; also for two messages handled in a row by one response object (the second verdict is its own).",
    "Trusted: CrossHair/z3; parsed-object hand-over; expected classes transcribed by hand from the documented names.",
    "DESIGN.md 3/C06")
add("C07",
    _CH + " of Server.create_authn_response -> setup_assertion -> Assertion.apply_policy -> Policy.restrict/filter over symbolic identity subsets x policy shapes x SP declarations, released attributes compared with an independent reference",
    "For every subset of a 4-attribute identity (incl. multi-valued mail and an undeclared attribute), 10 policy shapes and 4 SP declarations (incl. unsatisfiable requirements and per-SP entries inheriting the default key by key), what the returned Response asserts is a subset of the reference release computed from the documentation; error responses carry no attributes.",
    "Trusted: CrossHair/z3; reference release function in harness/c07.py; regexes from a fixed list; unsigned/unencrypted responses read at object level.",
    "DESIGN.md 3/C07")
add("C08",
    _CH + " driving the full IdP->SP flow (Server.create_authn_response -> real serialisation -> base64 or SOAP envelope -> Saml2Client.parse_authn_request_response) over symbolic indices into an alphabet of hostile values, with model signing/encryption",
    "IdP and SP built from each other's generated metadata: for attribute values and NameID text from a 21-entry alphabet (XML-special, quotes, non-ASCII, astral, padded, empty, line breaks, backslashes, comment/element/declaration look-alikes, ']]>', long), 4 NameID formats, 3 authn classes, POST and SOAP, sign x sign x encrypt, 4 satisfied SP requirement settings and 4 SP clock-skew allowances, "
    "the response is accepted and ava, name_id, in_response_to, issuer, came_from, authn class and session expiry equal what was asserted; the SP finds exactly one assertion with exactly the asserted attributes.",
    "Weaker than the purely symbolic checks: content is concrete per path (z3 enumerates the index space); quick samples one diagonal per alphabet entry, thorough the pair grid. Trusted: model backend for sign/verify/encrypt/decrypt; clock model.",
    "DESIGN.md 3/C08")
add("C09",
    _CH + " of Entity.response_args/pick_binding and the MetadataStore lookups with the consumer URL as a symbolic string (z3 decides equality with every registered endpoint), a near-miss catalogue and two-request histories",
    "For every AssertionConsumerServiceURL string of <= 44 chars (or none), index, ProtocolBinding and issuer (two registered SPs, unknown, padded, the IdP itself), for 15 catalogued near misses and for a second request following an answered one on the same IdP object: the derived destination is an endpoint the requester's own configuration registers for the chosen binding and equals the requested URL, else the request is refused.",
    "Trusted: CrossHair/z3; metadata store loaded from library-generated SP metadata outside the trace; expected endpoints taken from the SP configuration.",
    "DESIGN.md 3/C09")
add("C10",
    _CH + " of Request._loads/_verify/issue_instant_ok with Destination as a symbolic string and symbolic clock, and of Server.parse_authn_request -> Entity._parse_request -> correctly_signed_message over signature x verdict x want_authn_requests_signed x Destination x binding",
    "Acceptance of a request implies Version 2.0, Destination absent or one of the receiver's endpoints (every string <= 40 chars; 0-2 endpoints), IssueInstant within a day plus allowance, schema validity; a present signature must verify on (request element, its ID), unsigned requests are refused when signatures are wanted; wrong-root, garbled and truncated encodings are refused.",
    "Trusted: CrossHair/z3; xmlsec1 by contract (stub verdicts); parsed-object hand-over for the field checks; clock model. only_valid_cert option outside the claim.",
    "DESIGN.md 3/C10")
add("C12",
    _CH + " of SamlBase._to_element_tree -> create_class_from_element_tree per schema class with symbolic attribute/text values, symbolic child-presence mask and nested foreign content; generic structural comparison; base-then-derived serialisation histories",
    "For each of the 281 core classes (quick; all ~1140 classes in thorough; the non-core modules get a concrete smoke pass in quick) and every attribute/text string <= 3 chars, every 6-bit subset of declared children, list cardinality 1-2 and foreign attribute / nested foreign child present or not: parse(serialise(x)) has the same type, attributes, text, children and extension content, children are emitted in declared order, and re-serialising gives an equal tree.",
    "Trusted: CrossHair/z3; element-tree level (tostring/expat are C and outside); empty text treated as absent.",
    "DESIGN.md 3/C12")
add("C13",
    _CH + " of validate.valid_instance (and class verify overrides) per schema class: one declared constraint violated at a time, selected by symbolic indices, inside generated valid instances at the root and under each parent",
    "For every class with declared constraints (core classes + every class with an enumerated type or an occurrence bound >= 2 in quick; all schema modules in thorough) and every (constraint, removal mode, bad value, nesting parent, cardinality excess) the violated instance is rejected and the unviolated one accepted - confirmed over all paths per class.",
    "Trusted: CrossHair/z3; instance generator; bad-value catalogue (<= 7 per type); 'declared bounds' = c_cardinality; classes whose generated instance is not accepted are excluded by name in the evidence.",
    "DESIGN.md 3/C13")
add("C14",
    _CH + " driving pack.http_form_post_message / http_redirect_message / make_soap_enveloped_saml_thingy, Entity.apply_binding and Entity.unravel over symbolic indices into alphabets of hostile characters, checked by independent standard readers",
    "RelayState/message/text assembled from symbolic indices over alphabets containing every HTML/URL/XML-significant character and backslash sequences: a conforming HTML parser recovers exactly the two fields, a URL parser exactly the parameters (destination query untouched, signed octets = spec-ordered prefix), an XML parser an element-identical SOAP body, and the real decoders return the original bytes (incl. a Redirect message just over 64 KiB).",
    "Weaker than the other checks: strings are concrete per path (arbitrary symbolic strings do not close through these encoders), so z3 only enumerates the index space. Trusted: stdlib html.parser / urllib.parse / ElementTree as independent readers.",
    "DESIGN.md 3/C14")
add("C15",
    _CH + " of RSACrypto.get_signer / RSASigner.sign / verify interleavings (symbolic schedules of three entities), of two entities signing through Entity.apply_binding, and of http_redirect_message + verify_redirect_signature under single-parameter mutations, with an ideal signature scheme",
    "Every schedule of up to 4 (quick) / 5 (thorough) get_signer/sign steps by three entities with distinct keys, and two real client entities signing redirects in either order (each optionally having first verified a redirect received from the other): each signature is made with the requesting entity's key and verifies under no other; a signed redirect verifies iff unmutated and under the signer's key, for 17 mutations x 5 algorithms x 6 RelayStates (incl. percent escapes, '+' and blanks) x request/response.",
    "Trusted: CrossHair/z3; ideal signature scheme replacing the RSA primitives; call-granularity interleavings.",
    "DESIGN.md 3/C15")
add("C16",
    _CH + " of InMemoryMetaData.parse / do_entity_descriptor / MetadataStore.service / certs / load('remote') + parse_and_check_signature over symbolic federation shapes, clock and verification outcomes",
    "Two-source federations with symbolic endpoint subsets, duplicates, entity- and document-level validUntil vs symbolic clock and every (entity, binding) query return exactly the declared endpoints, with unknown vs unsupported distinguished and expired entities unserved; certs() returns exactly the entity's certificates of the requested or unspecified use; "
    "signed metadata with a configured certificate is served only if verification answered True (False and raising both covered); generated SP metadata loads back to the configured endpoints and keys.",
    "Trusted: CrossHair/z3; metadata enters as md objects or concrete documents with token timestamps; HTTP fetch and verification are stubs; clock model.",
    "DESIGN.md 3/C16")
add("C17",
    _CH + " of Server.create_authn_response (encryption branches of Entity._response) against a cipher model, and of the SP decrypt/validate path over content mutations inside the ciphertext",
    "IdP side: over sign x sign x encrypt x self-contained x PEFIM advice x SP-has-cert x tool-fails, no identity sentinel occurs outside the ciphertext token when encryption (of the assertion or of the advice assertion) was requested for an SP with an encryption certificate. "
    "SP side: a decrypted assertion is accepted exactly when its plain twin is (7 content mutations x signature x keys first/second/none x options); undecryptable content never yields an identity.",
    "Trusted: CrossHair/z3; cipher by contract (opaque token bound to the recipient certificate, decrypt iff key matches); signature verdicts by stub; fixed clock.",
    "DESIGN.md 3/C17")
add("C18",
    _CH + " of IdentDB operation histories (issue persistent/transient, withdraw, remove_local, manage-name-id, name-id-mapping over 2 users x 3 SPs) against a reference map, and of ident.code/decode over alphabet-indexed field contents",
    "All 2-op histories and sampled 3-op histories (quick; half of the 3-op grid in thorough) over 26 operation codes (incl. withdrawal of a never-issued NameID carrying an issued text): after every step each issued, unwithdrawn identifier resolves to exactly its user, withdrawn ones to nobody, find_nameid lists only real identifiers, persistent ids are stable per (user, SP) and distinct otherwise, transient ids fresh. "
    "code/decode round-trips every field and code is injective for fields built from separators, percent signs, spaces, look-alike prefixes and non-ASCII text.",
    "Trusted: CrossHair/z3 (index enumeration; strings concrete per path); id generator stub that never repeats; in-memory dict database.",
    "DESIGN.md 3/C18")
add("C19",
    _CH + " of Cache operation histories (set/reset/delete/mid-history read/clock tick, then a query battery: get_identity, get, active, entities, subjects) with symbolic expiry instants and clock, compared with a reference model",
    "2-op, sampled 3-op and 4-op histories (quick; a quarter of the 3-op grid and sampled 4-op in thorough) over 13 operation codes on three subjects (two differing in one NameID field, one lacking it) and two sources: every query result equals the reference model for every ordering of three symbolic expiries and two symbolic clock instants (ties included), with expiry checking on and off.",
    "Trusted: CrossHair/z3; clock model; in-memory cache only (shelve-backed variant is I/O, outside); expiry 0 = reset marker excluded.",
    "DESIGN.md 3/C19")
add("C20",
    _CH + " of the xmlsec1 call sites (validate_signature/_run_xmlsec/parse_xmlsec_output, _check_signature cert loop, sign_statement, encrypt_assertion, decrypt_keys, metadata verification) against a process model whose return code, stdout, stderr and output file are symbolic",
    "Every observable of a tool run is an arbitrary value (return code incl. signals, stdout, stderr as symbolic strings up to 4/5 chars, output file text, cannot start); verification returns True only when success was genuinely reported, signing/encryption with no result raise, decryption returns only genuinely produced text, unverified metadata is never served afterwards.",
    "Trusted: CrossHair/z3; process boundary model (Popen, temp files); what a successful-looking run wrote is xmlsec1's responsibility.",
    "DESIGN.md 3/C20")

NOT_APPLICABLE.update({
    "C11": "deciding code is expat/defusedxml (C) reacting to document text plus a syntactic inventory of parser call sites; "
           "neither can be executed symbolically nor is a solver question (DESIGN.md 4)",
})
