# Table consumed by gen_manifest.py: add(pid, technique, level text, level note, design ref)
add("C04",
    "CrossHair symbolic execution of condition_ok/_bearer_confirmed/authn_statement_ok/issue_instant_ok/session_info through AuthnResponse.loads+verify with seven symbolic instants; z3 decides every clock position",
    "Bounded symbolic execution of the real validity-window code: for every integer placement of now, slack and the seven instants inside the stated ranges and every presence subset, "
    "acceptance implies every present bound is respected, roomy profile-shaped responses are accepted, and session_info reports the documented expiry. Confirmed over all paths per partition, each with a reachability twin.",
    "Trusted: CrossHair/z3; integer clock model replacing strptime/timegm/gmtime (monotone bijection at 1 s); parsed-object hand-over instead of expat; AST cuts of log/message formatting. Outside: ties, sub-second, slack > 10 y.",
    "DESIGN.md 3/C04")

NOT_APPLICABLE.update({
    "C11": "deciding code is expat/defusedxml (C) reacting to document text plus a syntactic inventory of parser call sites; "
           "neither can be executed symbolically nor is a solver question (DESIGN.md 3/C11)",
})
for _p in ("C01", "C02", "C03", "C05", "C06", "C07", "C08", "C09", "C10", "C12", "C13", "C14", "C15", "C16", "C17", "C18", "C19", "C20"):
    NOT_APPLICABLE.setdefault(_p, "check under construction in this build round; not yet claimed")

add("C05",
    "CrossHair symbolic execution of AuthnResponse.loads/verify (solicitation, destination, audience, recipient checks) on handed-over objects; Destination also as a symbolic string decided by z3",
    "Bounded symbolic execution of the real addressing/solicitation code over the full product of InResponseTo x confirmation InResponseTo x Destination x audience restrictions x Recipient x allow_unsolicited x conv_info x pattern: "
    "acceptance implies every clause of the property, conforming responses are accepted and routed to the right caller; every Destination string of <= 40 chars decided by z3.",
    "Trusted: CrossHair/z3; parsed-object hand-over; fixed valid clock; AST cuts. Catalogues are finite (listed in evidence bounds); dest_string cuts schema validation.",
    "DESIGN.md 3/C05")
add("C06",
    "CrossHair symbolic execution of status_ok/_verify/verify over the finite status x second-level x version table, exception class compared with an independently written table",
    "Exhaustive (finite table) symbolic execution: every non-Success status and every non-2.0 version is rejected without identity, with the documented exception class per standard second-level code; Success+2.0 is accepted. Requests: three request classes x versions.",
    "Trusted: CrossHair/z3; parsed-object hand-over; expected classes transcribed by hand from the documented names.",
    "DESIGN.md 3/C06")
for _p in ("C05", "C06"):
    NOT_APPLICABLE.pop(_p, None)
