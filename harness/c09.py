"""C09 - the IdP answers only to endpoints registered for the requesting SP."""
from harness import fixtures as F
from veriflib.runner import Cond
from saml2_tophat import samlp, saml, BINDING_HTTP_POST, BINDING_HTTP_REDIRECT, BINDING_SOAP, BINDING_HTTP_ARTIFACT

SERVER = F.mk_server([F.sp_conf(), F.sp_conf(entityid=F.SP2_ID, acs_post=F.ACS2_POST, acs_redirect=None)])
ISSUERS = [F.SP_ID, F.SP2_ID, "urn:unknown:sp", " " + F.SP_ID + " ", F.IDP_ID]
KNOWN = [F.SP_ID, F.SP2_ID, None, F.SP_ID, None]
PBIND = [None, BINDING_HTTP_POST, BINDING_HTTP_REDIRECT, BINDING_SOAP, BINDING_HTTP_ARTIFACT]
# what the two SPs' own configuration registers (independent of the metadata store under test)
REG = {
    F.SP_ID: {"acs": {BINDING_HTTP_POST: [F.ACS_POST], BINDING_HTTP_REDIRECT: [F.ACS_REDIRECT]},
              "slo": {BINDING_HTTP_REDIRECT: [F.SLO_REDIRECT_SP]}},
    F.SP2_ID: {"acs": {BINDING_HTTP_POST: [F.ACS2_POST]}, "slo": {BINDING_HTTP_REDIRECT: [F.SLO_REDIRECT_SP]}},
}


def respond(kind: int, issuer: int, has_url: bool, url: str, has_index: bool, index: str, pbind: int):
    iss = saml.Issuer(text=ISSUERS[issuer])
    if kind == 0:
        rq = samlp.AuthnRequest(id="id-q", version="2.0", issuer=iss,
                                assertion_consumer_service_url=url if has_url else None,
                                assertion_consumer_service_index=index if has_index else None,
                                protocol_binding=PBIND[pbind])
        srv = "acs"
    else:
        rq = samlp.LogoutRequest(id="id-q", version="2.0", issuer=iss, name_id=saml.NameID(text="x"))
        srv = "slo"
    exc = None
    res = None
    try:
        if kind == 0:
            res = SERVER.response_args(rq)
        else:
            res = SERVER.response_args(rq, [PBIND[pbind]] if PBIND[pbind] else None)
    except Exception as e:
        exc = e
    who = KNOWN[issuer]
    if res is None:
        ok = True
        # liveness: a known SP asking for its own registered URL (or none) over a registered binding is answered
        if (who is not None) & (kind == 0) & (pbind <= 2):
            b = PBIND[pbind] or BINDING_HTTP_POST
            regs = REG[who]["acs"].get(b, [])
            if (not has_url) | (url == ""):
                ok = len(regs) == 0
            else:
                ok = url not in regs
    else:
        dest = res["destination"]
        b = res["binding"]
        ok = who is not None
        if (b == BINDING_SOAP) & (dest == ""):
            # synchronous back channel: the answer travels on the requester's own connection,
            # no destination is produced at all
            ok = PBIND[pbind] == BINDING_SOAP
        elif ok:
            regs = REG[who][srv].get(b, [])
            ok = dest in regs
            if (kind == 0) & has_url & (url != ""):
                ok = ok & (dest == url)
            if PBIND[pbind] is not None:
                ok = ok & (b == PBIND[pbind])
    return ok, (res is not None) | (who is None), "res=%r exc=%r" % (res, exc)


NEAR = [F.ACS_POST, F.ACS_POST + "?x=1", F.ACS_POST + "#frag", F.ACS_POST.upper(), F.ACS_POST.replace("http://", "HTTP://"),
        F.ACS_POST.rstrip("/"), F.ACS_POST + "/", F.ACS_POST + "extra", F.ACS2_POST, F.ACS_REDIRECT, "http://evil.example.org/acs",
        F.ACS_POST.replace("lingon", "LINGON"), " " + F.ACS_POST, F.ACS_POST + "?", "//lingon.catalogix.se:8087/"]


def near_miss(issuer: int, u: int, pbind: int):
    """Near misses of a registered consumer URL from a concrete catalogue (conclusive even if the
    comparison in the code under test involves URL parsing that does not close on symbolic text)."""
    from veriflib.boot import concrete
    issuer, u, pbind = concrete(issuer), concrete(u), concrete(pbind)
    rq = samlp.AuthnRequest(id="id-q", version="2.0", issuer=saml.Issuer(text=ISSUERS[issuer]),
                            assertion_consumer_service_url=NEAR[u], protocol_binding=PBIND[pbind])
    res = None
    try:
        res = SERVER.response_args(rq)
    except Exception:
        res = None
    who = KNOWN[issuer]
    if res is None:
        ok = True
        if who is not None and pbind <= 2:
            b = PBIND[pbind] or BINDING_HTTP_POST
            ok = NEAR[u] not in REG[who]["acs"].get(b, [])
    else:
        ok = (who is not None) and (res["destination"] == NEAR[u]) and (NEAR[u] in REG[who]["acs"].get(res["binding"], []))
    return ok, True, "res=%r" % (res,)


def sequence(i1: int, i2: int, has_url2: bool, u2: int, same_id: bool):
    """Two requests in a row on the same IdP object: a correctly answered one from a known SP, then
    a second one (same or another message ID) from any issuer - the second answer depends only on
    the second request."""
    from veriflib.boot import concrete
    i1, i2, u2, same_id, has_url2 = concrete(i1), concrete(i2), concrete(u2), concrete(same_id), concrete(has_url2)
    first = [F.SP_ID, F.SP2_ID][i1]
    rq1 = samlp.AuthnRequest(id="id-same", version="2.0", issuer=saml.Issuer(text=first),
                             assertion_consumer_service_url=REG[first]["acs"][BINDING_HTTP_POST][0], protocol_binding=BINDING_HTTP_POST)
    r1 = SERVER.response_args(rq1)
    ok = r1["destination"] == REG[first]["acs"][BINDING_HTTP_POST][0]
    rq2 = samlp.AuthnRequest(id="id-same" if same_id else "id-other", version="2.0", issuer=saml.Issuer(text=ISSUERS[i2]),
                             assertion_consumer_service_url=NEAR[u2] if has_url2 else None, protocol_binding=BINDING_HTTP_POST)
    res = None
    try:
        res = SERVER.response_args(rq2)
    except Exception:
        res = None
    who = KNOWN[i2]
    if res is None:
        regs = REG[who]["acs"].get(BINDING_HTTP_POST, []) if who is not None else []
        if who is not None:
            ok = ok and ((NEAR[u2] not in regs) if has_url2 else (len(regs) == 0))
    else:
        ok = ok and (who is not None) and (res["destination"] in REG[who]["acs"].get(res["binding"], []))
        if has_url2:
            ok = ok and (res["destination"] == NEAR[u2])
    return ok, True, "r1=%r r2=%r" % (r1, res)


CONDITIONS = [
    Cond(name="respond", fn="respond",
         params=[("kind", "int"), ("issuer", "int"), ("has_url", "bool"), ("url", "str"), ("has_index", "bool"),
                 ("index", "str"), ("pbind", "int")],
         pre=["0 <= kind <= 1", "0 <= issuer < %d" % len(ISSUERS), "len(url) <= 44", "len(index) <= 2", "0 <= pbind < %d" % len(PBIND)],
         partitions={"quick": [{"issuer": i, "kind": k} for i in range(len(ISSUERS)) for k in (0, 1)]},
         timeout={"quick": 300, "thorough": 900}, path_timeout=60,
         functions=["entity.Entity.response_args", "entity.Entity.pick_binding", "mdstore.MetadataStore.assertion_consumer_service",
                    "mdstore.MetadataStore.single_logout_service", "mdstore.MetadataStore.service", "mdstore.InMemoryMetaData.service",
                    "mdstore.destinations"],
         bounds="two registered SPs (one with POST+Redirect ACS, one with POST only) + unknown issuer + whitespace-padded issuer + the IdP itself; "
                "AssertionConsumerServiceURL absent or ANY string of <= 44 chars (registered ones have 32-40); index absent or any string <= 2 chars; "
                "ProtocolBinding absent/POST/Redirect/SOAP/Artifact; AuthnRequest and LogoutRequest"),
]

CONDITIONS += [
    Cond(name="near_miss", fn="near_miss", params=[("issuer", "int"), ("u", "int"), ("pbind", "int")],
         pre=["0 <= issuer < %d" % len(ISSUERS), "0 <= u < %d" % len(NEAR), "0 <= pbind < %d" % len(PBIND)],
         partitions={"quick": [{"issuer": i} for i in range(len(ISSUERS))]}, timeout={"quick": 600, "thorough": 900}, path_timeout=60,
         functions=["entity.Entity.response_args", "entity.Entity.pick_binding"],
         bounds="%d near misses of the registered URL (extra query, fragment, case of scheme / host / path, trailing slash, suffix, other SP's URL, other binding's URL, "
                "leading space, scheme-relative) x 5 issuers x 5 protocol bindings" % len(NEAR)),
    Cond(name="sequence", fn="sequence", params=[("i1", "int"), ("i2", "int"), ("has_url2", "bool"), ("u2", "int"), ("same_id", "bool")],
         pre=["0 <= i1 <= 1", "0 <= i2 < %d" % len(ISSUERS), "0 <= u2 < %d" % len(NEAR)],
         partitions={"quick": [{"i1": a, "i2": b} for a in (0, 1) for b in range(len(ISSUERS))]}, timeout={"quick": 600, "thorough": 900}, path_timeout=60,
         functions=["entity.Entity.response_args", "entity.Entity.pick_binding"],
         bounds="two-request histories on one IdP object: answered request from either known SP, then a request with the same or another message ID from any of 5 issuers, "
                "with no URL or one of the near misses"),
]

ASSUMPTIONS = [
    "metadata store loaded (outside the traced function) from metadata generated by the library from the two SP configurations",
    "an empty AssertionConsumerServiceURL attribute is treated as absent",
    "expected endpoints come from the SP configurations (harness/fixtures.py), not from the store under test",
]
