"""C13 - schema validation rejects every structurally invalid message."""
import os
from harness import schemagen as G
from veriflib.runner import Cond
from saml2_tophat.validate import valid_instance

_ALL = os.environ.get("VERIF_TIER_ALL") == "1"
UNIVERSE = []
for _m in G.modules(G.ALL_MODULES):
    UNIVERSE.extend(G.classes_of(_m))
NQUICK = sum(len(G.classes_of(m)) for m in G.modules(G.QUICK_MODULES))


def _accepts(inst):
    try:
        return valid_instance(inst) is True
    except Exception:
        return False
    except AssertionError:
        return False


# classes whose generated instance the real validator accepts (others are excluded by name)
USABLE = []
EXCLUDED = []
for _i, _c in enumerate(UNIVERSE):
    try:
        ok = _accepts(G.make_valid(_c))
    except Exception:
        ok = False
    (USABLE if ok else EXCLUDED).append(_i)
VIOL = {i: G.violations_of(UNIVERSE[i]) for i in USABLE}
PARENTS = {}
for i in USABLE:
    ps = [(p, n, s) for (p, n, s) in G.parents_of(UNIVERSE[i], UNIVERSE) if UNIVERSE.index(p) in USABLE][:3]
    PARENTS[i] = ps


def violate(ci: int, k: int, mode: int, bad: int, parent: int, extra: int):
    """One declared constraint of class ci violated in isolation (k-th violation; mode: removed
    vs emptied; bad: index into the bad-value catalogue; extra: how far outside the cardinality),
    at the root (parent = 0) or nested under its (parent-1)-th possible parent."""
    cls = G.UNIVERSE_REF[ci] if hasattr(G, "UNIVERSE_REF") else UNIVERSE[ci]
    inst = G.make_valid(cls)
    vs = VIOL[ci]
    applied = False
    if 0 <= k < len(vs):
        v = vs[k]
        if v[0] == "req_attr":
            setattr(inst, v[1], None if mode == 0 else "")
            applied = True
        elif v[0] == "typed_attr":
            bads = G.bad_values_for(v[2])
            setattr(inst, v[1], bads[bad % len(bads)])
            applied = True
        elif v[0] == "typed_text":
            bads = G.bad_values_for(cls)
            inst.text = bads[bad % len(bads)]
            applied = True
        elif v[0] == "min":
            cmin = v[3]
            n = cmin - 1 - (extra if cmin - 1 - extra >= 0 else 0)
            kids = [G.make_valid(G.child_class(v[2])) for _ in range(n)]
            setattr(inst, v[1], kids if isinstance(v[2], list) else (kids[0] if kids else None))
            applied = True
        elif v[0] == "max":
            n = v[3] + 1 + extra
            setattr(inst, v[1], [G.make_valid(G.child_class(v[2])) for _ in range(n)])
            applied = True
    top = inst
    ps = PARENTS[ci]
    if parent > 0 and parent <= len(ps):
        p, pyname, spec = ps[parent - 1]
        top = G.make_valid(p)
        setattr(top, pyname, [inst] if isinstance(spec, list) else inst)
    acc = _accepts(top)
    ok = (acc != applied)
    return ok, applied & (not acc), "class=%s violation=%r accepted=%s" % (cls.__name__, vs[k] if 0 <= k < len(vs) else None, acc)


# ---- class-specific verify() overrides ----------------------------------------------------------
from saml2_tophat import saml as _saml      # noqa: E402


def _ok_assertion(**kw):
    d = dict(id="id-a", version="2.0", issue_instant="2020-01-02T03:04:05Z", issuer=_saml.Issuer(text="urn:i"),
             subject=_saml.Subject(name_id=_saml.NameID(text="s")))
    d.update(kw)
    return _saml.Assertion(**d)


def _authn_stmt():
    return _saml.AuthnStatement(authn_instant="2020-01-02T03:04:05Z",
                                authn_context=_saml.AuthnContext(authn_context_class_ref=_saml.AuthnContextClassRef(text="urn:x")))


OVERRIDES = [
    ("assertion with subject only", lambda: _ok_assertion(), True),
    ("assertion with neither subject nor statement", lambda: _ok_assertion(subject=None), False),
    ("assertion with AuthnStatement but no subject", lambda: _ok_assertion(subject=None, authn_statement=[_authn_stmt()]), False),
    ("assertion with attribute statement and no subject", lambda: _ok_assertion(subject=None, attribute_statement=[_saml.AttributeStatement(
        attribute=[_saml.Attribute(name="a", attribute_value=[_saml.AttributeValue(text="v")])])]), True),
    ("conditions with one OneTimeUse", lambda: _saml.Conditions(one_time_use=[_saml.OneTimeUse()]), True),
    ("conditions with two OneTimeUse", lambda: _saml.Conditions(one_time_use=[_saml.OneTimeUse(), _saml.OneTimeUse()]), False),
    ("conditions with two ProxyRestriction", lambda: _saml.Conditions(proxy_restriction=[_saml.ProxyRestriction(), _saml.ProxyRestriction()]), False),
    ("authn context with class ref", lambda: _saml.AuthnContext(authn_context_class_ref=_saml.AuthnContextClassRef(text="urn:x")), True),
    ("authn context with decl and decl ref", lambda: _saml.AuthnContext(authn_context_decl=_saml.AuthnContextDecl(text="d"),
                                                                        authn_context_decl_ref=_saml.AuthnContextDeclRef(text="urn:r")), False),
    ("subject locality with IPv4", lambda: _saml.SubjectLocality(address="192.0.2.7"), True),
    ("subject locality with IPv6", lambda: _saml.SubjectLocality(address="2001:db8::1"), True),
    ("subject locality with garbage address", lambda: _saml.SubjectLocality(address="not-an-address"), False),
    ("attribute value with text", lambda: _saml.AttributeValue(text="v"), True),
    ("attribute value without text marked nil", lambda: _saml.AttributeValue(), True),
]


def overrides(case: int, nested: bool):
    """The class-specific verify() rules (Assertion, Conditions, AuthnContext, SubjectLocality,
    AttributeValue), at the root and nested inside a Response / Assertion."""
    from veriflib.boot import concrete
    case, nested = concrete(case), concrete(nested)
    name, mk, valid = OVERRIDES[case]
    inst = mk()
    top = inst
    if nested:
        if isinstance(inst, _saml.Assertion):
            from saml2_tophat import samlp as _samlp
            top = _samlp.Response(id="id-r", version="2.0", issue_instant="2020-01-02T03:04:05Z",
                                  status=_samlp.Status(status_code=_samlp.StatusCode(value=_samlp.STATUS_SUCCESS)), assertion=[inst])
        elif isinstance(inst, _saml.Conditions):
            top = _ok_assertion(conditions=inst)
        elif isinstance(inst, _saml.AuthnContext):
            top = _ok_assertion(authn_statement=[_saml.AuthnStatement(authn_instant="2020-01-02T03:04:05Z", authn_context=inst)])
        elif isinstance(inst, _saml.SubjectLocality):
            st = _authn_stmt()
            st.subject_locality = inst
            top = _ok_assertion(authn_statement=[st])
        elif isinstance(inst, _saml.AttributeValue):
            top = _saml.Attribute(name="a", attribute_value=[inst])
    try:
        r = top.verify()          # the entry point that applies the class-specific rules to the root as well
        acc = r is not False      # AttributeValue.verify() returns None on success
    except Exception:
        acc = False
    except AssertionError:
        acc = False
    return acc == valid, True, "%s: accepted=%s" % (name, acc)


def _parts(idx):
    return [{"ci": i} for i in idx]


def _has_enum(i):
    for v in VIOL[i]:
        if v[0] == "typed_text" and G.base_of(UNIVERSE[i])[0] == "enum":
            return True
        if v[0] == "typed_attr" and G.base_of(v[2])[0] == "enum":
            return True
    return False


def _has_wide_bound(i):
    # occurrence bounds other than the usual 0/1: 'present but too few' is only reachable here
    return any(v[0] == "min" and v[3] >= 2 for v in VIOL[i]) or any(v[0] == "max" and v[3] >= 2 for v in VIOL[i])


_QUICK = [i for i in USABLE if VIOL[i] and (i < NQUICK or _has_enum(i) or _has_wide_bound(i))]
_THOROUGH = [i for i in USABLE if VIOL[i]]
CONDITIONS = [
    Cond(name="violate", fn="violate",
         params=[("ci", "int"), ("k", "int"), ("mode", "int"), ("bad", "int"), ("parent", "int"), ("extra", "int")],
         pre=["-1 <= k <= 40", "0 <= mode <= 1", "0 <= bad <= 9", "0 <= parent <= 3", "0 <= extra <= 2"],
         partitions={"quick": _parts(_QUICK), "thorough": _parts(_THOROUGH)},
         timeout={"quick": 300, "thorough": 600}, path_timeout=60,
         functions=["validate.valid_instance", "validate._valid_instance", "validate.validate_value_type", "validate.valid", "validate.VALIDATOR functions",
                    "saml.*.verify overrides", "SamlBase.verify"],
         bounds="per class: every declared constraint (required attribute removed or emptied; typed attribute/text set to each of <= 10 catalogue values outside the "
                "XSD lexical space; child count min-1-extra / max+1+extra, extra <= 2) violated one at a time inside an otherwise valid generated instance, "
                "at the root and nested under up to 3 possible parents; k = -1 is the all-valid instance. quick: saml, samlp, md, xmldsig, xmlenc plus every class of any module with an enumerated type or an occurrence bound >= 2; thorough: all schema modules"),
]

CONDITIONS.append(
    Cond(name="overrides", fn="overrides", params=[("case", "int"), ("nested", "bool")], pre=["0 <= case < %d" % len(OVERRIDES)],
         partitions={"quick": [{}]}, timeout={"quick": 300, "thorough": 300}, path_timeout=60,
         functions=["saml.AssertionType_.verify", "saml.ConditionsType_.verify", "saml.AuthnContextType_.verify", "saml.SubjectLocality.verify", "saml.AttributeValueBase.verify"],
         bounds="%d hand-built valid / invalid instances for the five class-specific verify() rules, at the root and nested under their parent" % len(OVERRIDES)))

ASSUMPTIONS = [
    "valid instances come from a simple generator (harness/schemagen.py); a class whose generated instance the real validator rejects is excluded by name: "
    + ", ".join(sorted(UNIVERSE[i].__module__.split(".")[-1] + "." + UNIVERSE[i].__name__ for i in EXCLUDED))[:1500],
    "'declared occurrence bounds' = the class's c_cardinality table; children without an entry carry no declared bound",
    "bad values are catalogue entries that are outside the XSD lexical space; case variants of booleans and NCName/anyURI syntax are not demanded either way",
    "real time functions (no clock model): dateTime validation is strptime's",
    "AST cuts 1-4 (error message formatting)",
]
