"""C01 - accepted signed content is exactly what its signature covers.

Signature-wrapping family: a genuinely signed response (assertion-level, response-level or both)
is rewritten by a generator parameterised with symbolic integers (where the evil content goes,
which ID it carries, which Signature children it gets, where the original ends up, whether the
original keeps its own signature).  The document is really parsed and processed by the SP; the
absent xmlsec1 is replaced by the digest-faithful model in harness/xmlsecmodel.py.  Under every
signature-requiring configuration, acceptance implies that the identity the application reads is
the signed one."""
import copy
import base64
import xml.etree.ElementTree as ET

from harness import fixtures as F
from harness.spfix import SPFixture, NOW, RID, AID
from harness.common import mk_assertion, mk_response, REQ_ID
from harness import xmlsecmodel as X
from veriflib.boot import concrete, untraced
from veriflib.runner import Cond
from saml2_tophat import saml, samlp, BINDING_HTTP_POST
from saml2_tophat.sigver import CryptoBackend, SignatureError, pre_signature_part

SAML = "urn:oasis:names:tc:SAML:2.0:assertion"
SAMLP = "urn:oasis:names:tc:SAML:2.0:protocol"
A_NAME = SAML + ":Assertion"
R_NAME = SAMLP + ":Response"
GOOD_NID, EVIL_NID = "good-subject", "EVIL-subject"
GOOD_VAL, EVIL_VAL = "Alice", "EVIL-Mallory"


class ModelBackend(CryptoBackend):
    def __init__(self):
        CryptoBackend.__init__(self)
        self.asked = []

    def version(self):
        return "1.2.33"

    def validate_signature(self, signedtext, cert_file, cert_type, node_name, node_id, id_attr):
        with untraced():
            if isinstance(signedtext, bytes):
                signedtext = signedtext.decode("utf-8")
            ok, why = X.verify(signedtext, node_name, node_id)
        self.asked.append((node_name, node_id, ok, why))
        if ok:
            return True
        raise SignatureError(why)

    def decrypt(self, enctext, key_file, id_attr):
        # kind 7: the ciphertext token opens to an attacker-made, unsigned assertion
        if "RVZJTENJUEhFUg==" not in enctext:
            return ""
        with untraced():
            root = ET.fromstring(enctext)
            for ea in root.iter(q(SAML, "EncryptedAssertion")):
                for ch in list(ea):
                    ea.remove(ch)
                ea.append(copy.deepcopy(EVIL_A))
            return ET.tostring(root, encoding="unicode")


FX = SPFixture()
BACK = ModelBackend()
FX.client.sec.crypto = BACK
_T = FX.clock.stamp(1, NOW)
_OK = FX.clock.stamp(2, NOW + 600)


def _assertion_obj(nid, val, aid, signed):
    a = mk_assertion(_T, {"not_on_or_after": _OK, "audiences": [[F.SP_ID]]},
                     {"not_on_or_after": _OK, "in_response_to": REQ_ID, "recipient": F.ACS_POST}, {},
                     attrs=[saml.Attribute(name="urn:oid:2.5.4.42", name_format=saml.NAME_FORMAT_URI, friendly_name="givenName",
                                           attribute_value=[saml.AttributeValue(text=val)])],
                     aid=aid, issuer=F.IDP_ID, name_id_text=nid)
    if signed:
        a.signature = pre_signature_part(aid)
    a.advice = saml.Advice()
    return a


def _original(mode):
    """mode 0: assertion signed, 1: response signed, 2: both -> ElementTree root, genuinely signed"""
    a = _assertion_obj(GOOD_NID, GOOD_VAL, AID, mode in (0, 2))
    r = mk_response(_T, [a], destination=F.ACS_POST, rid=RID, issuer=F.IDP_ID)
    r.extensions = samlp.Extensions()
    if mode in (1, 2):
        r.signature = pre_signature_part(RID)
    root = ET.fromstring("%s" % r)
    if mode in (0, 2):
        X.sign_in_place(root, A_NAME, AID)
    if mode in (1, 2):
        X.sign_in_place(root, R_NAME, RID)
    return root


with untraced():
    ORIG = {m: _original(m) for m in (0, 1, 2)}
    EVIL_A = ET.fromstring("%s" % _assertion_obj(EVIL_NID, EVIL_VAL, "id-evil", False))


def q(ns, tag):
    return "{%s}%s" % (ns, tag)


def _find(root, tag):
    return [e for e in root.iter(tag)]


def _forged_sig(ref_id):
    s = ET.fromstring("%s" % pre_signature_part(ref_id))
    s.find(q(X.DS, "SignedInfo")).find(q(X.DS, "Reference")).find(q(X.DS, "DigestValue")).text = "forged"
    s.find(q(X.DS, "SignatureValue")).text = "forged"
    return s


def _insert_after_issuer(elem, new):
    kids = list(elem)
    pos = 0
    for i, k in enumerate(kids):
        if k.tag == q(SAML, "Issuer"):
            pos = i + 1
    elem.insert(pos, new)


def _place(container_root, evil, orig, loc, sigcopy):
    """Put the original element somewhere relative to the evil one."""
    if loc == 0:
        return                                                   # dropped
    parent_map = {c: p for p in container_root.iter() for c in p}
    p = parent_map.get(evil)
    if loc == 1 and p is not None:                               # following sibling
        p.insert(list(p).index(evil) + 1, orig)
    elif loc == 2 and p is not None:                             # preceding sibling
        p.insert(list(p).index(evil), orig)
    elif loc == 3:                                               # inside the evil element's Advice (or appended)
        adv = evil.find(q(SAML, "Advice"))
        (adv if adv is not None else evil).append(orig)
    elif loc == 4:                                               # inside ds:Object of the copied signature
        if sigcopy is not None:
            obj = ET.SubElement(sigcopy, q(X.DS, "Object"))
            obj.append(orig)
        else:
            evil.append(orig)
    elif loc == 5:                                               # inside the (root) Response's Extensions, before everything
        ext = container_root.find(q(SAMLP, "Extensions"))
        if ext is None:
            ext = ET.Element(q(SAMLP, "Extensions"))
            _insert_after_issuer(container_root, ext)
        ext.append(orig)
    elif loc == 6:                                               # as very first child of the root
        container_root.insert(0, orig)


def attack(mode, kind, evil_id, evil_sig, loc, strip):
    """-> (xml text, description).  kind 0 pristine, 1 NameID edited in place, 2 attribute value edited in
    place, 3 evil Assertion with the original Assertion relocated, 4 evil Response wrapping the original Response,
    5 original assertion's Signature moved up onto the Response, 6 attribute on the signed element edited."""
    root = copy.deepcopy(ORIG[mode])
    A = _find(root, q(SAML, "Assertion"))[0]
    if kind == 0:
        pass
    elif kind == 1:
        _find(A, q(SAML, "NameID"))[0].text = EVIL_NID
    elif kind == 2:
        _find(A, q(SAML, "AttributeValue"))[0].text = EVIL_VAL
    elif kind == 8:
        # content edited inside the assertion (its own Signature untouched, now invalid), then the
        # *response* is signed afresh over the edited document: a valid outer signature must not
        # vouch for the inner one that is also relied upon
        _find(A, q(SAML, "NameID"))[0].text = EVIL_NID
        _find(A, q(SAML, "AttributeValue"))[0].text = EVIL_VAL
        if [c for c in root if c.tag == X.SIG]:
            X.sign_in_place(root, R_NAME, RID)
    elif kind == 7:
        # the (signed) assertion is replaced by an EncryptedAssertion whose plaintext is an unsigned evil assertion
        idx = list(root).index(A)
        root.remove(A)
        ea = ET.Element(q(SAML, "EncryptedAssertion"))
        ed = ET.SubElement(ea, "{http://www.w3.org/2001/04/xmlenc#}EncryptedData", {"Type": "http://www.w3.org/2001/04/xmlenc#Element"})
        cd = ET.SubElement(ed, "{http://www.w3.org/2001/04/xmlenc#}CipherData")
        ET.SubElement(cd, "{http://www.w3.org/2001/04/xmlenc#}CipherValue").text = "RVZJTENJUEhFUg=="
        root.insert(idx, ea)
    elif kind == 6:
        _find(A, q(SAML, "SubjectConfirmationData"))[0].set("Recipient", F.ACS_POST)
        _find(A, q(SAML, "NameID"))[0].set("SPProvidedID", "injected")
        _find(A, q(SAML, "NameID"))[0].text = EVIL_NID
    elif kind == 5:
        sig = [c for c in A if c.tag == X.SIG]
        if sig:
            A.remove(sig[0])
            _insert_after_issuer(root, sig[0])
        _find(A, q(SAML, "NameID"))[0].text = EVIL_NID
    elif kind == 3:
        own_sig = [c for c in A if c.tag == X.SIG]
        evil = copy.deepcopy(EVIL_A)
        evil.set("ID", AID if evil_id == 1 else "id-evil")
        sigcopy = copy.deepcopy(own_sig[0]) if own_sig else None
        sigs = []
        if evil_sig in (1, 3, 4) and sigcopy is not None:
            sigs.append(("copy", sigcopy))
        if evil_sig in (2, 3, 4):
            sigs.append(("forged", _forged_sig(evil.get("ID"))))
        if evil_sig == 3:
            sigs.sort(key=lambda t: t[0] == "copy")          # forged first, copy last
        if evil_sig == 4:
            sigs.sort(key=lambda t: t[0] != "copy")          # copy first, forged last
        for _, s in reversed(sigs):
            _insert_after_issuer(evil, s)
        parent = root
        idx = list(parent).index(A)
        parent.remove(A)
        parent.insert(idx, evil)
        if strip and own_sig:
            A.remove(own_sig[0])
        _place(root, evil, A, loc, sigcopy if evil_sig in (1, 3, 4) else None)
    elif kind == 4:
        inner = root
        own_sig = [c for c in inner if c.tag == X.SIG]
        evil_assertion = copy.deepcopy(EVIL_A)
        outer = ET.Element(inner.tag, dict(inner.attrib))
        outer.set("ID", RID if evil_id == 1 else "id-evil-r")
        for c in inner:
            if c.tag in (q(SAML, "Issuer"), q(SAMLP, "Status"), q(SAMLP, "Extensions")):
                outer.append(copy.deepcopy(c))
        outer.append(evil_assertion)
        sigcopy = copy.deepcopy(own_sig[0]) if own_sig else None
        sigs = []
        if evil_sig in (1, 3, 4) and sigcopy is not None:
            sigs.append(("copy", sigcopy))
        if evil_sig in (2, 3, 4):
            sigs.append(("forged", _forged_sig(outer.get("ID"))))
        if evil_sig == 3:
            sigs.sort(key=lambda t: t[0] == "copy")
        if evil_sig == 4:
            sigs.sort(key=lambda t: t[0] != "copy")
        for _, s in reversed(sigs):
            _insert_after_issuer(outer, s)
        if strip and own_sig:
            inner.remove(own_sig[0])
        # the original Response goes inside the evil one
        if loc in (1, 2, 6):
            outer.insert(0 if loc != 1 else len(outer), inner)
        elif loc == 3:
            adv = evil_assertion.find(q(SAML, "Advice"))
            (adv if adv is not None else evil_assertion).append(inner)
        elif loc == 4 and sigcopy is not None and evil_sig in (1, 3, 4):
            ET.SubElement(sigcopy, q(X.DS, "Object")).append(inner)
        elif loc == 5:
            ext = outer.find(q(SAMLP, "Extensions"))
            if ext is None:
                ext = ET.SubElement(outer, q(SAMLP, "Extensions"))
            ext.append(inner)
        root = outer
    return ET.tostring(root, encoding="unicode")


KINDS = 9
OPTS = [(True, False, False), (False, True, False), (False, False, True), (True, True, False)]   # (want_response, want_assertions, want_either)


def wrap(mode: int, kind: int, evil_id: int, evil_sig: int, loc: int, strip: bool, opt: int):
    mode, kind, evil_id, evil_sig, loc, strip, opt = [concrete(x) for x in (mode, kind, evil_id, evil_sig, loc, strip, opt)]
    with untraced():
        text = attack(mode, kind, evil_id, evil_sig, loc, strip)
        wire = base64.b64encode(text.encode("utf-8")).decode("ascii")
    c = FX.client
    from veriflib import timemodel
    timemodel.set_clock(NOW, FX.clock.tab)
    from saml2_tophat.population import Population
    want_resp, want_ass, want_either = OPTS[opt]
    c.want_response_signed, c.want_assertions_signed, c.want_assertions_or_response_signed = want_resp, want_ass, want_either
    c.allow_unsolicited = False
    c.users = Population()
    BACK.asked = []
    resp = None
    exc = None
    try:
        resp = c.parse_authn_request_response(wire, BINDING_HTTP_POST, {REQ_ID: "/"})
    except Exception as e:
        exc = e
    acc = resp is not None and (resp.name_id is not None or bool(resp.ava))
    ok = True
    if acc:
        nid = resp.name_id.text if resp.name_id is not None else None
        vals = (resp.ava or {}).get("givenName", [])
        ok = (nid == GOOD_NID) and (vals == [GOOD_VAL])
    # liveness: the pristine document is accepted whenever what is required is what is signed
    if kind == 0:
        signed_r, signed_a = mode in (1, 2), mode in (0, 2)
        should = ((not want_resp) or signed_r) and ((not want_ass) or signed_a) and ((not want_either) or signed_r or signed_a)
        ok = ok and (acc == should)
    return ok, True, "accepted=%s name_id=%r exc=%r asked=%r" % (acc, None if not acc or resp.name_id is None else resp.name_id.text, exc, BACK.asked)


def _parse(text, opt):
    c = FX.client
    from veriflib import timemodel
    from saml2_tophat.population import Population
    timemodel.set_clock(NOW, FX.clock.tab)
    c.want_response_signed, c.want_assertions_signed, c.want_assertions_or_response_signed = OPTS[opt]
    c.allow_unsolicited = False
    c.users = Population()
    wire = base64.b64encode(text.encode("utf-8")).decode("ascii")
    try:
        return c.parse_authn_request_response(wire, BINDING_HTTP_POST, {REQ_ID: "/"})
    except Exception:
        return None


def history(mode: int, kind: int, opt: int, twice: bool):
    """Two documents on the same long-lived SP object: first the genuinely signed response
    (accepted), then a copy that keeps every ID and Signature verbatim but has edited content."""
    mode, kind, opt, twice = [concrete(x) for x in (mode, kind, opt, twice)]
    with untraced():
        good = attack(mode, 0, 0, 0, 0, False)
        evil = attack(mode, kind, 0, 0, 0, False)
    r1 = _parse(good, opt)
    if twice:
        _parse(good, opt)
    r2 = _parse(evil, opt)
    signed_r, signed_a = mode in (1, 2), mode in (0, 2)
    wr, wa, we = OPTS[opt]
    should = ((not wr) or signed_r) and ((not wa) or signed_a) and ((not we) or signed_r or signed_a)
    ok = ((r1 is not None) == should)
    if r2 is not None and (r2.name_id is not None or r2.ava):
        ok = ok and (r2.name_id is not None) and (r2.name_id.text == GOOD_NID) and ((r2.ava or {}).get("givenName", []) == [GOOD_VAL])
    return ok, True, "first=%s second=%s" % (r1 is not None, None if r2 is None or r2.name_id is None else r2.name_id.text)


_P = [("mode", "int"), ("kind", "int"), ("evil_id", "int"), ("evil_sig", "int"), ("loc", "int"), ("strip", "bool"), ("opt", "int")]
_PRE = ["0 <= mode <= 2", "0 <= kind < %d" % KINDS, "0 <= evil_id <= 1", "0 <= evil_sig <= 4", "0 <= loc <= 6", "0 <= opt < %d" % len(OPTS)]
CONDITIONS = [
    Cond(name="wrap", fn="wrap", params=_P, pre=_PRE,
         partitions={"quick": [{"mode": m, "kind": k, "evil_id": 0, "evil_sig": 0, "loc": 0, "strip": False} for m in range(3) for k in (0, 1, 2, 5, 6)] +
                              [{"mode": m, "kind": 7, "evil_id": 0, "evil_sig": 0, "loc": 0, "strip": False} for m in (0, 1)] +
                              [{"mode": 2, "kind": 8, "evil_id": 0, "evil_sig": 0, "loc": 0, "strip": False}] +
                              [{"mode": 0, "kind": 3, "evil_sig": s, "loc": l, "opt": 1} for (s, l) in ((1, 3), (1, 4), (1, 5), (3, 5), (4, 2))] +
                              [{"mode": 2, "kind": 3, "evil_sig": 1, "loc": 5, "opt": 3}] +
                              [{"mode": 1, "kind": 4, "evil_sig": s, "loc": l, "opt": 0} for (s, l) in ((1, 2), (1, 3), (3, 5))],
                     "thorough": [{"mode": m, "kind": k, "evil_id": 0, "evil_sig": 0, "loc": 0, "strip": False} for m in range(3) for k in (0, 1, 2, 5, 6, 7)] + [{"mode": 2, "kind": 8, "evil_id": 0, "evil_sig": 0, "loc": 0, "strip": False}] +
                                 [{"mode": m, "kind": k, "evil_sig": s, "loc": l, "opt": (1, 0, 3)[m]} for m in range(3) for k in (3, 4) for s in range(5) for l in range(7)] +
                                 [{"mode": m, "kind": k, "evil_sig": 1, "loc": l, "opt": o} for m in range(3) for k in (3, 4) for l in range(7) for o in range(4) if o != (1, 0, 3)[m]]},
         timeout={"quick": 900, "thorough": 2400}, path_timeout=120,
         functions=["client_base.Base.parse_authn_request_response", "entity.Entity._parse_response", "response.AuthnResponse.loads/verify/parse_assertion/_assertion",
                    "sigver.SecurityContext.correctly_signed_response/_check_signature/check_signature/verify_signature",
                    "SamlBase.harvest_element_tree/_convert_element_tree_to_member (really parsing every attack document)"],
         bounds="documents derived from a genuinely signed response (assertion-, response- or both-signed) by: in-place edits of NameID / attribute value / XML attributes; "
                "moving the assertion's Signature onto the Response; replacing the assertion by an EncryptedAssertion that decrypts to an unsigned evil one; editing the assertion and re-signing only the response around it; an evil Assertion (fresh or duplicate ID; Signature children: none, copy of the genuine one, forged, both in either order) "
                "with the original relocated (dropped, following / preceding sibling, evil element's Advice, ds:Object of the copied Signature, Response Extensions, first child of the root; "
                "keeping or stripped of its own Signature); the same with an evil Response wrapping the original Response; x 4 signature-requiring SP option settings. "
                "quick: sampled signature-children / location combinations"),
]

CONDITIONS.append(
    Cond(name="history", fn="history", params=[("mode", "int"), ("kind", "int"), ("opt", "int"), ("twice", "bool")],
         pre=["0 <= mode <= 2", "1 <= kind <= 2", "0 <= opt < %d" % len(OPTS)],
         partitions={"quick": [{"mode": 0, "opt": 1, "kind": 1}, {"mode": 1, "opt": 0, "kind": 2}, {"mode": 2, "opt": 3, "kind": 1}],
                     "thorough": [{"mode": m, "opt": o} for m in range(3) for o in range(len(OPTS))]},
         timeout={"quick": 900, "thorough": 2400}, path_timeout=180,
         functions=["client_base.Base.parse_authn_request_response (two calls on one client)", "sigver.SecurityContext._check_signature"],
         bounds="two- and three-document histories on one SP object: the genuine response (once or twice), then the same document with NameID or attribute value edited "
                "and every ID / Signature verbatim"))

ASSUMPTIONS = [
    "xmlsec1 by contract (harness/xmlsecmodel.py): ID registration only for the --id-attr element name, first-wins on duplicate IDs, start node = --node-id, "
    "signature = first ds:Signature in document order from the start node (xmlSecFindNode), same-document dereference through the ID table, enveloped-signature transform, "
    "digest over a context-free canonical form, SignatureValue only producible by the key owner. If real xmlsec1 deviates from this contract the verdict is about the contract",
    "identity oracle: under a signature-requiring configuration, an accepted response yields exactly the signed subject and attribute value",
    "plain (unencrypted) assertions; the encrypted variant of the same tree after decryption goes through the same _check_signature call (C17 covers the decrypt path)",
    "integer clock model with a fixed valid clock; AST cuts 1-4; temp files faked",
]
