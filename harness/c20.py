"""C20 - failures of the external XML-security tool never turn into acceptance."""
from harness import fixtures as F
from veriflib import procmodel
from veriflib.runner import Cond
from saml2_tophat import sigver, saml, samlp
from saml2_tophat.sigver import CryptoBackendXmlSec1, SignatureError, XmlsecError, SigverError, EncryptError

procmodel.install()
BACKEND = CryptoBackendXmlSec1(F.XMLSEC)
CLIENT = F.mk_client()
SEC = CLIENT.sec                      # SecurityContext with the real xmlsec1 backend class + metadata
SEC.crypto = BACKEND


_SEPS = "\n\r\x0b\x0c\x1c\x1d\x1e\x85\u2028\u2029"


def _reports_ok(err):
    """Reference: success is reported iff stderr has a line exactly 'OK' before any line 'FAIL'
    (lines as Python's universal-newline splitting defines them).  Written as a character scan:
    a second str.splitlines() on the same symbolic string trips a CrossHair 0.0.110 internal
    error (SymbolicBoundedIntTuple._created_vars)."""
    n = len(err)
    start = 0
    i = 0
    while i <= n:
        at_end = i == n
        if at_end or (err[i] in _SEPS):
            if not (at_end and start == n):          # no empty trailing line
                ln = i - start
                if ln == 2 and err[start] == "O" and err[start + 1] == "K":
                    return True
                if ln == 4 and err[start] == "F" and err[start + 1] == "A" and err[start + 2] == "I" and err[start + 3] == "L":
                    return False
            start = i + 1
        i += 1
    return False


def verify_site(rc: int, has_rc: bool, out: str, err: str, oserror: bool, nerr: int = 0):
    procmodel.Script.reset([{"rc": rc if has_rc else None, "out": out, "err": err, "oserror": oserror}])
    res = None
    exc = None
    try:
        res = BACKEND.validate_signature("<x/>", "cert.pem", "pem", "urn:x:Response", "id-1", "ID")
    except Exception as e:
        exc = e
    good = (not oserror) and ((not has_rc) | (rc >= 0)) and _reports_ok(err)
    if res is not None:
        ok = (res is True) & good
    else:
        ok = (exc is not None) & (not good)
    return ok, True, "res=%r exc=%r" % (res, exc)


FAULTS = [
    {"rc": 0, "err": "OK\n"},                       # 0: genuine success
    {"rc": 1, "err": "FAIL\n"},                     # 1: verification failed
    {"rc": 1, "err": ""},                           # 2: error exit, silent
    {"rc": -11, "err": "OK\n"},                     # 3: died by signal after printing OK
    {"rc": -9, "err": ""},                          # 4: killed
    {"rc": 0, "err": ""},                           # 5: empty output
    {"rc": 0, "err": "O"},                          # 6: truncated
    {"rc": 0, "err": "xOKx\n"},                     # 7: OK inside other text
    {"rc": 0, "err": "NOT OK\n"},                   # 8
    {"rc": 0, "err": "FAIL\nOK\n"},                 # 9: FAIL first
    {"oserror": True},                              # 10: not startable
    {"rc": 0, "err": "\x00\xff garbage"},           # 11
    {"rc": 0, "out": "OK\n", "err": ""},            # 12: OK on stdout only
]
FAULT_OK = [True] + [False] * 12


_DOC = "%s" % samlp.Response(id="id-r1", version="2.0", issuer=saml.Issuer(text=F.IDP_ID),
                            signature=sigver.pre_signature_part("id-r1"))
_NODE = "urn:oasis:names:tc:SAML:2.0:protocol:Response"


def _signed_response(n_certs):
    return samlp.response_from_string(_DOC)


def check_signature_site(f1: int, f2: int, f3: int):
    """SecurityContext._check_signature with the real metadata certs of the IdP: every
    invocation (one per candidate certificate, then none) misbehaves according to the catalogue."""
    procmodel.Script.reset([FAULTS[f1], FAULTS[f2], FAULTS[f3]])
    item = _signed_response(1)
    res = None
    exc = None
    try:
        res = SEC._check_signature(_DOC, item, _NODE)
    except Exception as e:
        exc = e
    n = len(procmodel.Script.calls)
    # acceptance must be backed by an invocation that genuinely reported success, and no later one
    used = [f1, f2, f3][:n]
    backed = (n >= 1) and FAULT_OK[used[-1]]
    if res is not None:
        ok = backed
    else:
        ok = exc is not None
    # liveness: first invocation OK => accepted
    if FAULT_OK[f1]:
        ok = ok & (res is not None)
    return ok, res is not None, "res=%r exc=%r calls=%d" % (res is not None, exc, n)


def sign_site(rc: int, out: str, err: str, output: str, oserror: bool):
    procmodel.Script.reset([{"rc": rc, "out": out, "err": err, "output": output, "oserror": oserror}])
    stmt = "<Statement>unsigned</Statement>"
    res = None
    exc = None
    try:
        res = BACKEND.sign_statement(stmt, "urn:x:Assertion", "key.pem", "id-1", "ID")
    except Exception as e:
        exc = e
    produced = (not oserror) & (rc >= 0) & (len(output) > 0)
    if res is not None:
        # whatever is returned is what the tool wrote, never the unsigned input
        ok = produced & (res == output) & (out == "")
    else:
        ok = exc is not None
    if produced & (out == ""):
        ok = ok & (res is not None)
    return ok, res is not None, "res=%r exc=%r" % (res, exc)


def encrypt_site(rc: int, out: str, err: str, output: str, oserror: bool):
    procmodel.Script.reset([{"rc": rc, "out": out, "err": err, "output": output, "oserror": oserror}])
    stmt = "<Response><Assertion>secret</Assertion></Response>"
    res = None
    exc = None
    try:
        res = BACKEND.encrypt_assertion(stmt, "cert.pem", "<tmpl/>", "des-192", None)
    except Exception as e:
        exc = e
    produced = (not oserror) & (rc >= 0) & (len(output) > 0)
    if res is not None:
        ok = produced & (res == output)
    else:
        ok = exc is not None
    if produced:
        ok = ok & (res is not None)
    return ok, res is not None, "res=%r exc=%r" % (res, exc)


def decrypt_site(rc1: int, o1: str, rc2: int, o2: str, os1: bool, os2: bool):
    """SecurityContext.decrypt_keys with two configured key files."""
    procmodel.Script.reset([{"rc": rc1, "output": o1, "oserror": os1}, {"rc": rc2, "output": o2, "oserror": os2}])
    enc = "<Response><EncryptedAssertion>cipher</EncryptedAssertion></Response>"
    res = None
    exc = None
    try:
        res = SEC.decrypt_keys(enc, None)
    except Exception as e:
        exc = e
    if res is not None:
        # either genuinely produced plaintext of one tool run, or the ciphertext unchanged
        first = (not os1) & (rc1 >= 0) & (len(o1) > 0)
        second = (not os1) & (not os2) & (rc2 >= 0) & (len(o2) > 0) & (not first)
        ok = ((res == o1) & first) | ((res == o2) & second) | ((res == enc) & (not first) & (not second))
    else:
        ok = exc is not None
    return ok, res is not None, "res=%r exc=%r" % (res, exc)


def two_runs(site: int, o1: str, second_writes: bool, o2: str, rc2: int):
    """Two tool runs on the same backend object: a successful one, then one that may produce no
    output at all.  The second result is the second run's own output or an error - never what the
    first run left behind."""
    from veriflib.boot import concrete
    site, second_writes = concrete(site), concrete(second_writes)
    procmodel.Script.reset([{"rc": 0, "out": "", "err": "", "output": o1},
                            {"rc": rc2, "out": "", "err": "", "output": o2 if second_writes else None}])
    def run():
        if site == 0:
            return BACKEND.sign_statement("<Statement>unsigned</Statement>", "urn:x:Assertion", "key.pem", "id-1", "ID")
        if site == 1:
            return BACKEND.encrypt_assertion("<Response><Assertion>secret</Assertion></Response>", "cert.pem", "<tmpl/>", "des-192", None)
        return BACKEND.decrypt("<Response><EncryptedAssertion>cipher</EncryptedAssertion></Response>", "key.pem", "ID")
    r1 = run()
    r2 = None
    exc = None
    try:
        r2 = run()
    except Exception as e:
        exc = e
    produced2 = second_writes & (rc2 >= 0) & (len(o2) > 0)
    if r2 is not None and site in (0, 1):
        ok = produced2 & (r2 == o2)
    elif r2 is not None:
        ok = (r2 == (o2 if (second_writes & (rc2 >= 0)) else ""))      # decrypt: empty text = nothing decrypted
    else:
        ok = exc is not None
    return ok & (r1 == o1), True, "r1=%r r2=%r exc=%r" % (r1, r2, exc)


# ---- metadata verification site -----------------------------------------------------------------
from saml2_tophat import md, BINDING_HTTP_REDIRECT                      # noqa: E402
from saml2_tophat.mdstore import MetaDataExtern                          # noqa: E402
_ED = md.EntityDescriptor(entity_id="urn:verif:rogue", id="id-md1", idpsso_descriptor=[md.IDPSSODescriptor(
    protocol_support_enumeration=samlp.NAMESPACE,
    single_sign_on_service=[md.SingleSignOnService(binding=BINDING_HTTP_REDIRECT, location="http://rogue.example.org/sso")])],
    signature=sigver.pre_signature_part("id-md1"))
_MDTEXT = "%s" % _ED


class _R:
    status_code = 200
    content = _MDTEXT


class _H:
    def send(self, url, **kw):
        return _R()


_ED2 = md.EntityDescriptor(entity_id="urn:verif:rogue", id="id-md1", idpsso_descriptor=[md.IDPSSODescriptor(
    protocol_support_enumeration=samlp.NAMESPACE,
    single_sign_on_service=[md.SingleSignOnService(binding=BINDING_HTTP_REDIRECT, location="http://ATTACKER.example.org/sso")])],
    signature=sigver.pre_signature_part("id-md1"))
_MDTEXT2 = "%s" % _ED2


def metadata_refresh(f2: int):
    """The source verified fine once; a later refresh delivers different content for the same
    entity and the verification run fails: the unverified endpoints are never served."""
    procmodel.Script.reset([FAULTS[0], FAULTS[f2], FAULTS[f2]])
    _R.content = _MDTEXT
    m = MetaDataExtern(None, "http://md.example.org/x.xml", SEC, "cert.pem", _H(), node_name="urn:oasis:names:tc:SAML:2.0:metadata:EntityDescriptor")
    try:
        m.load()
    except Exception:
        pass
    first_ok = "urn:verif:rogue" in m.keys()
    _R.content = _MDTEXT2
    try:
        m.load()
    except Exception:
        pass
    finally:
        _R.content = _MDTEXT
    try:
        srv = m.service("urn:verif:rogue", "idpsso_descriptor", "single_sign_on_service", BINDING_HTTP_REDIRECT) or []
    except Exception:
        srv = []
    locs = [x["location"] for x in srv]
    ok = first_ok
    if not FAULT_OK[f2]:
        ok = ok and ("http://ATTACKER.example.org/sso" not in locs)
    return ok, True, "served=%r" % (locs,)


def metadata_site(f1: int, again: bool):
    """Signed remote metadata with a configured verification certificate: the tool run that
    verifies it misbehaves according to the catalogue; afterwards the *same metadata object* (an
    application may keep it, MDX re-queries it) serves the entity only if success was reported."""
    procmodel.Script.reset([FAULTS[f1], FAULTS[f1]])
    m = MetaDataExtern(None, "http://md.example.org/x.xml", SEC, "cert.pem", _H(), node_name="urn:oasis:names:tc:SAML:2.0:metadata:EntityDescriptor")
    res = None
    exc = None
    for _ in range(2 if again else 1):
        try:
            res = m.load()
        except Exception as e:
            exc = e
    served = "urn:verif:rogue" in m.keys()
    try:
        srv = m.service("urn:verif:rogue", "idpsso_descriptor", "single_sign_on_service", BINDING_HTTP_REDIRECT)
    except Exception:
        srv = None
    good = FAULT_OK[f1]
    ok = (served == good) and (bool(srv) == good)
    if not good:
        ok = ok and (res is not True)
    return ok, True, "served=%s res=%r exc=%r" % (served, res, exc)


_NF = len(FAULTS)
CONDITIONS = [
    Cond(name="verify_site", fn="verify_site",
         params=[("rc", "int"), ("has_rc", "bool"), ("out", "str"), ("err", "str"), ("oserror", "bool"), ("nerr", "int")],
         pre=["-64 <= rc <= 255", "len(out) <= 3", "len(err) == nerr"],
         partitions={"quick": [{"oserror": False, "has_rc": h, "nerr": n} for h in (True, False) for n in range(5)] + [{"oserror": True, "nerr": 2}],
                     "thorough": [{"oserror": False, "has_rc": h, "nerr": n} for h in (True, False) for n in range(6)] + [{"oserror": True, "nerr": 2}]},
         timeout={"quick": 400, "thorough": 900},
         functions=["sigver.CryptoBackendXmlSec1.validate_signature", "sigver.CryptoBackendXmlSec1._run_xmlsec", "sigver.parse_xmlsec_output"],
         bounds="return code in [-64, 255] or None, stdout ANY string <= 3 chars, stderr ANY string of <= 4 chars (quick) / <= 5 chars (thorough), partitioned by length (covers 'OK', 'OK\\n', 'xOK', 'FAIL', "
                "'\\nOK\\n', garbage), tool not startable"),
    Cond(name="check_signature_site", fn="check_signature_site", params=[("f1", "int"), ("f2", "int"), ("f3", "int")],
         pre=["0 <= f1 < %d" % _NF, "0 <= f2 < %d" % _NF, "0 <= f3 < %d" % _NF],
         partitions={"quick": [{"f3": 1}], "thorough": [{"f3": k} for k in range(_NF)]},
         timeout={"quick": 400, "thorough": 900},
         functions=["sigver.SecurityContext._check_signature", "sigver.SecurityContext.verify_signature",
                    "sigver.CryptoBackendXmlSec1.validate_signature/_run_xmlsec", "sigver.parse_xmlsec_output", "mdstore.MetadataStore.certs"],
         bounds="13-entry fault catalogue (error exit, signal after OK, killed, empty, truncated, OK inside text, FAIL before OK, not startable, garbage, "
                "OK on stdout only) injected at the first, second and third invocation within one verification"),
    Cond(name="two_runs", fn="two_runs", params=[("site", "int"), ("o1", "str"), ("second_writes", "bool"), ("o2", "str"), ("rc2", "int")],
         pre=["0 <= site <= 2", "1 <= len(o1) <= 2", "len(o2) <= 2", "-64 <= rc2 <= 255"],
         partitions={"quick": [{"site": k} for k in range(3)]}, timeout={"quick": 400, "thorough": 900},
         functions=["sigver.CryptoBackendXmlSec1._run_xmlsec (two consecutive runs on one backend)", "sign_statement / encrypt_assertion / decrypt"],
         bounds="a successful run with output o1, then a run that writes nothing / writes o2 (<= 2 chars) with any return code, at the sign, encrypt and decrypt sites"),
    Cond(name="sign_site", fn="sign_site",
         params=[("rc", "int"), ("out", "str"), ("err", "str"), ("output", "str"), ("oserror", "bool")],
         pre=["-64 <= rc <= 255", "len(out) <= 2", "len(err) <= 2", "len(output) <= 3"],
         partitions={"quick": [{}]}, timeout={"quick": 400, "thorough": 900},
         functions=["sigver.CryptoBackendXmlSec1.sign_statement", "sigver.CryptoBackendXmlSec1._run_xmlsec"],
         bounds="return code in [-64,255], stdout/stderr <= 2 chars, output file text <= 3 chars (incl. empty = no result), tool not startable"),
    Cond(name="encrypt_site", fn="encrypt_site",
         params=[("rc", "int"), ("out", "str"), ("err", "str"), ("output", "str"), ("oserror", "bool")],
         pre=["-64 <= rc <= 255", "len(out) <= 2", "len(err) <= 2", "len(output) <= 3"],
         partitions={"quick": [{}]}, timeout={"quick": 400, "thorough": 900},
         functions=["sigver.CryptoBackendXmlSec1.encrypt_assertion", "sigver.CryptoBackendXmlSec1._run_xmlsec"],
         bounds="as sign_site"),
    Cond(name="decrypt_site", fn="decrypt_site",
         params=[("rc1", "int"), ("o1", "str"), ("rc2", "int"), ("o2", "str"), ("os1", "bool"), ("os2", "bool")],
         pre=["-64 <= rc1 <= 255", "-64 <= rc2 <= 255", "len(o1) <= 3", "len(o2) <= 3"],
         partitions={"quick": [{}]}, timeout={"quick": 400, "thorough": 900},
         functions=["sigver.SecurityContext.decrypt_keys", "sigver.CryptoBackendXmlSec1.decrypt", "sigver.CryptoBackendXmlSec1._run_xmlsec"],
         bounds="two configured key files; per invocation return code in [-64,255], output text <= 3 chars (empty = nothing decrypted), not startable"),
]

CONDITIONS.append(
    Cond(name="metadata_refresh", fn="metadata_refresh", params=[("f2", "int")], pre=["0 <= f2 < %d" % _NF],
         partitions={"quick": [{}]}, timeout={"quick": 400, "thorough": 900}, path_timeout=60,
         functions=["mdstore.MetaDataExtern.load (twice)", "mdstore.InMemoryMetaData.parse_and_check_signature/do_entity_descriptor"],
         bounds="a verified first load, then a refresh with other endpoints for the same entity whose verification run fails in each of the 13 catalogue ways"))
CONDITIONS.append(
    Cond(name="metadata_site", fn="metadata_site", params=[("f1", "int"), ("again", "bool")], pre=["0 <= f1 < %d" % _NF],
         partitions={"quick": [{}]}, timeout={"quick": 400, "thorough": 900}, path_timeout=60,
         functions=["mdstore.MetaDataExtern.load", "mdstore.InMemoryMetaData.parse_and_check_signature", "sigver.SecurityContext.verify_signature",
                    "sigver.CryptoBackendXmlSec1.validate_signature/_run_xmlsec"],
         bounds="13-entry fault catalogue at the metadata verification invocation; the metadata object queried afterwards, load attempted once or twice"))

ASSUMPTIONS = [
    "the xmlsec1 process is modelled at the Popen / --output temporary file boundary (veriflib/procmodel.py): every observable of a run "
    "(return code, stdout, stderr, output file text, failure to start) is an arbitrary value of its type",
    "sigver.make_temp, NamedTemporaryFile and os.unlink are in-memory fakes",
    "'reports success' means: stderr has a line exactly OK before any line FAIL, and the process did not die by signal",
    "what a *successful-looking* run wrote is trusted (the cipher / signature mathematics are xmlsec1's)",
    "'decryption failure never yields an identity' at response level is decided in C17 (undecryptable rows)",
]
