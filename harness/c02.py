"""C02 - SP signature requirements decide acceptance exactly as documented."""
from harness.spfix import SPFixture
from veriflib.runner import Cond

FX = SPFixture()


def table(want_resp: bool, want_ass: bool, want_either: bool, resp_signed: bool, ass_signed: bool,
          resp_ok: bool, ass_ok: bool, encrypted: bool):
    resp, exc = FX.parse((resp_signed, ass_signed, encrypted), want_resp, want_ass, want_either, resp_ok, ass_ok)
    acc = (resp is not None) and bool(resp.ava) and (resp.name_id is not None)
    expect = ((not resp_signed) | resp_ok) & ((not ass_signed) | ass_ok) \
        & ((not want_resp) | resp_signed) & ((not want_ass) | ass_signed) \
        & ((not want_either) | resp_signed | ass_signed)
    ok = (acc == expect)
    return ok, acc | (not expect), "accepted=%s expected=%s exc=%r resp=%r" % (acc, expect, exc, resp is not None)


def history(first_resp_signed: bool, first_ass_signed: bool, want_resp: bool, want_ass: bool, want_either: bool, encrypted: bool, twice: bool):
    """Two responses on the same long-lived SP object: first a genuinely signed, accepted one, then
    a completely unsigned one.  Whether the second is accepted depends on the second alone."""
    r1, e1 = FX.parse((first_resp_signed, first_ass_signed, False), False, False, False, True, True)
    if twice:
        FX.parse((first_resp_signed, first_ass_signed, encrypted), False, False, False, True, True)
    r2, e2 = FX.parse((False, False, encrypted), want_resp, want_ass, want_either, True, True)
    acc2 = (r2 is not None) and bool(r2.ava)
    expect2 = not (want_resp | want_ass | want_either)
    ok = (r1 is not None) & (acc2 == expect2)
    return ok, True, "first=%s second=%s exc=%r" % (r1 is not None, acc2, e2)


_P = [("want_resp", "bool"), ("want_ass", "bool"), ("want_either", "bool"), ("resp_signed", "bool"), ("ass_signed", "bool"),
      ("resp_ok", "bool"), ("ass_ok", "bool"), ("encrypted", "bool")]
CONDITIONS = [
    Cond(name="table", fn="table", params=_P,
         partitions={"quick": [{"resp_signed": r, "ass_signed": a, "encrypted": e, "want_resp": w}
                               for r in (False, True) for a in (False, True) for e in (False, True) for w in (False, True)]},
         timeout={"quick": 900, "thorough": 1800}, path_timeout=120,
         functions=["client_base.Base.parse_authn_request_response", "entity.Entity._parse_response", "entity.Entity.unravel",
                    "response.AuthnResponse.loads/verify/parse_assertion/_assertion/decrypt_assertions/get_identity",
                    "sigver.SecurityContext.correctly_signed_response/_check_signature/check_signature/verify_signature/decrypt_keys",
                    "mdstore.MetadataStore.certs"],
         bounds="exhaustive over the finite table: 3 options x {response signed} x {assertion signed} x verdict of each present signature x {plain, encrypted}; "
                "identity content fixed; one assertion"),
]

CONDITIONS.append(
    Cond(name="history", fn="history",
         params=[("first_resp_signed", "bool"), ("first_ass_signed", "bool"), ("want_resp", "bool"), ("want_ass", "bool"), ("want_either", "bool"),
                 ("encrypted", "bool"), ("twice", "bool")],
         partitions={"quick": [{"first_resp_signed": True, "first_ass_signed": False, "twice": False, "encrypted": False},
                               {"first_resp_signed": False, "first_ass_signed": True, "twice": False, "encrypted": True}],
                     "thorough": [{"first_resp_signed": a, "first_ass_signed": b, "twice": t} for a in (False, True) for b in (False, True) for t in (False, True) if a or b]},
         timeout={"quick": 900, "thorough": 1800}, path_timeout=180,
         functions=["client_base.Base.parse_authn_request_response (two / three calls on one client)", "entity.Entity._parse_response"],
         bounds="histories on one SP object: a signed, accepted response (once or twice), then an unsigned one under each of the 8 option settings"))

ASSUMPTIONS = [
    "xmlsec1 by contract: stub CryptoBackend answers verification per node id (True or SignatureError), decrypt returns the prepared plaintext",
    "concrete response documents built with the library's own classes (harness/spfix.py), really parsed by the code under test",
    "integer clock model with a fixed valid clock; AST cuts 1-4; make_temp fake",
    "SP configured from library-generated IdP metadata, with encryption_keypairs",
]
