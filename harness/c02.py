"""C02 - SP signature requirements decide acceptance exactly as documented."""
from harness.spfix import SPFixture
from veriflib.runner import Cond

FX = SPFixture()


def table(want_resp: bool, want_ass: bool, want_either: bool, resp_signed: bool, ass_signed: bool,
          resp_ok: bool, ass_ok: bool, encrypted: bool):
    resp, exc = FX.parse((resp_signed, ass_signed, encrypted), want_resp, want_ass, want_either, resp_ok, ass_ok)
    acc = (resp is not None) and bool(resp.ava) and (resp.name_id is not None)
    expect = ((not resp_signed) | resp_ok) & ((not ass_signed) | ass_ok) \
        & ((not want_resp) | resp_signed) & ((not want_ass) | ass_signed) \
        & ((not want_either) | resp_signed | ass_signed)
    ok = (acc == expect)
    return ok, acc | (not expect), "accepted=%s expected=%s exc=%r resp=%r" % (acc, expect, exc, resp is not None)


_P = [("want_resp", "bool"), ("want_ass", "bool"), ("want_either", "bool"), ("resp_signed", "bool"), ("ass_signed", "bool"),
      ("resp_ok", "bool"), ("ass_ok", "bool"), ("encrypted", "bool")]
CONDITIONS = [
    Cond(name="table", fn="table", params=_P,
         partitions={"quick": [{"resp_signed": r, "ass_signed": a, "encrypted": e, "want_resp": w}
                               for r in (False, True) for a in (False, True) for e in (False, True) for w in (False, True)]},
         timeout={"quick": 900, "thorough": 1800}, path_timeout=120,
         functions=["client_base.Base.parse_authn_request_response", "entity.Entity._parse_response", "entity.Entity.unravel",
                    "response.AuthnResponse.loads/verify/parse_assertion/_assertion/decrypt_assertions/get_identity",
                    "sigver.SecurityContext.correctly_signed_response/_check_signature/check_signature/verify_signature/decrypt_keys",
                    "mdstore.MetadataStore.certs"],
         bounds="exhaustive over the finite table: 3 options x {response signed} x {assertion signed} x verdict of each present signature x {plain, encrypted}; "
                "identity content fixed; one assertion"),
]

ASSUMPTIONS = [
    "xmlsec1 by contract: stub CryptoBackend answers verification per node id (True or SignatureError), decrypt returns the prepared plaintext",
    "concrete response documents built with the library's own classes (harness/spfix.py), really parsed by the code under test",
    "integer clock model with a fixed valid clock; AST cuts 1-4; make_temp fake",
    "SP configured from library-generated IdP metadata, with encryption_keypairs",
]
