"""IdP / SP fixtures configured from each other's generated metadata (built once at import,
outside any traced function)."""
import copy
import os

from veriflib import boot
boot.install()

from saml2_tophat import BINDING_HTTP_POST, BINDING_HTTP_REDIRECT, BINDING_SOAP   # noqa: E402
from saml2_tophat.config import IdPConfig, SPConfig                               # noqa: E402
from saml2_tophat.metadata import entity_descriptor                               # noqa: E402
from saml2_tophat import saml                                                     # noqa: E402

FX = os.path.join(os.path.dirname(os.path.dirname(os.path.abspath(__file__))), "fixtures")
XMLSEC = os.path.join(os.path.dirname(os.path.dirname(os.path.abspath(__file__))), "tools", "xmlsec1_model")  # never run under trace (backend is stubbed)

SP_ID = "urn:mace:example.com:saml:roland:sp"
SP2_ID = "urn:mace:example.com:saml:other:sp"
IDP_ID = "urn:mace:example.com:saml:roland:idp"
ACS_POST = "http://lingon.catalogix.se:8087/"
ACS_REDIRECT = "http://lingon.catalogix.se:8087/redirect"
ACS2_POST = "http://other.example.com/acs/post"
SSO_REDIRECT = "http://idp.example.com/sso/redirect"
SSO_POST = "http://idp.example.com/sso/post"
SLO_SOAP_IDP = "http://idp.example.com/slo/soap"
SLO_REDIRECT_SP = "http://lingon.catalogix.se:8087/slo"


def sp_conf(entityid=SP_ID, acs_post=ACS_POST, acs_redirect=ACS_REDIRECT, key="test.key", cert="test.pem",
            enc=True, required=None, optional=None, idp_md=None, extra=None, entity_category=None):
    c = {
        "entityid": entityid,
        "name": "SP",
        "service": {"sp": {
            "endpoints": {
                "assertion_consumer_service": [(acs_post, BINDING_HTTP_POST)] +
                                              ([(acs_redirect, BINDING_HTTP_REDIRECT)] if acs_redirect else []),
                "single_logout_service": [(SLO_REDIRECT_SP, BINDING_HTTP_REDIRECT)],
            },
            "idp": [IDP_ID],
        }},
        "key_file": os.path.join(FX, key), "cert_file": os.path.join(FX, cert),
        "xmlsec_binary": XMLSEC,
        "metadata": {"inline": idp_md or []},
        "accepted_time_diff": 0,
    }
    if required is not None:
        c["service"]["sp"]["required_attributes"] = required
    if optional is not None:
        c["service"]["sp"]["optional_attributes"] = optional
    if enc:
        c["encryption_keypairs"] = [{"key_file": os.path.join(FX, "test_1.key"), "cert_file": os.path.join(FX, "test_1.crt")},
                                    {"key_file": os.path.join(FX, "test_2.key"), "cert_file": os.path.join(FX, "test_2.crt")}]
    if entity_category:
        c["entity_category"] = entity_category
    if extra:
        for k, v in extra.items():
            if k == "sp":
                c["service"]["sp"].update(v)
            else:
                c[k] = v
    return c


def idp_conf(sp_md=None, policy=None, extra=None, key="test.key", cert="test.pem"):
    c = {
        "entityid": IDP_ID,
        "name": "IdP",
        "service": {"idp": {
            "endpoints": {
                "single_sign_on_service": [(SSO_REDIRECT, BINDING_HTTP_REDIRECT), (SSO_POST, BINDING_HTTP_POST)],
                "single_logout_service": [(SLO_SOAP_IDP, BINDING_SOAP)],
            },
            "policy": policy if policy is not None else {"default": {"lifetime": {"minutes": 15}, "attribute_restrictions": None,
                                                                     "name_form": saml.NAME_FORMAT_URI}},
            "subject_data": {},
        }},
        "key_file": os.path.join(FX, key), "cert_file": os.path.join(FX, cert),
        "xmlsec_binary": XMLSEC,
        "metadata": {"inline": sp_md or []},
    }
    if extra:
        for k, v in extra.items():
            if k == "idp":
                c["service"]["idp"].update(v)
            else:
                c[k] = v
    return c


def metadata_of(conf_dict, cls):
    cnf = cls().load(copy.deepcopy(conf_dict), metadata_construction=True)
    return entity_descriptor(cnf).to_string().decode("utf-8")


def mk_server(sp_confs=None, policy=None, extra=None):
    from saml2_tophat.server import Server
    sp_confs = sp_confs if sp_confs is not None else [sp_conf()]
    mds = [metadata_of(c, SPConfig) for c in sp_confs]
    conf = IdPConfig().load(idp_conf(sp_md=mds, policy=policy, extra=extra))
    return Server(config=conf)


def mk_client(spc=None, idp_extra=None):
    from saml2_tophat.client import Saml2Client
    idp_md = metadata_of(idp_conf(extra=idp_extra), IdPConfig)
    d = spc if spc is not None else sp_conf()
    d = copy.deepcopy(d)
    d["metadata"] = {"inline": [idp_md]}
    conf = SPConfig().load(d)
    return Saml2Client(config=conf)
