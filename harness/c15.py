"""C15 - redirect-binding signatures bind the exact query and the signer's own key."""
import base64
from urllib.parse import parse_qs, urlsplit

from veriflib import boot
boot.install()
from veriflib.boot import concrete, untraced
from veriflib.runner import Cond
import saml2_tophat.cryptography.asymmetric as asym
from saml2_tophat import pack, sigver
from saml2_tophat.sigver import RSACrypto, verify_redirect_signature, SIGNER_ALGS
from saml2_tophat.xmldsig import SIG_RSA_SHA1, SIG_RSA_SHA224, SIG_RSA_SHA256, SIG_RSA_SHA384, SIG_RSA_SHA512, SIG_RSA_MD5


# ---- ideal signature scheme (the RSA mathematics are `cryptography`'s, C code) ------------------
class Key:
    def __init__(self, name):
        self.name = name

    def __repr__(self):
        return "Key(%s)" % self.name


def _digest_name(d):
    return getattr(d, "name", str(d))


def ideal_sign(key, msg, digest):
    return ("SIG|%s|%s|" % (key.name, _digest_name(digest))).encode("ascii") + msg


def ideal_verify(key, sig, msg, digest):
    return sig == ideal_sign(key, msg, digest)


asym.key_sign = ideal_sign
asym.key_verify = ideal_verify

KEYS = [Key("A"), Key("B"), Key("C")]
ENT = [RSACrypto(k) for k in KEYS]
ALGS = [SIG_RSA_SHA1, SIG_RSA_SHA224, SIG_RSA_SHA256, SIG_RSA_SHA384, SIG_RSA_SHA512]
MSG = "<ns0:AuthnRequest xmlns:ns0=\"urn:oasis:names:tc:SAML:2.0:protocol\" ID=\"id-1\" Version=\"2.0\"/>"


def schedule(s0: int, s1: int, s2: int, s3: int, s4: int, s5: int, n: int, a0: int, a1: int, a2: int):
    """Interleaving of obtain-signer and sign steps by three entities (step code = 2*entity + op,
    op 0 = get_signer for the entity's algorithm, op 1 = sign with the signer it last obtained).
    Every signature an entity produces is made with that entity's own key."""
    algs = [ALGS[concrete(a0)], ALGS[concrete(a1)], ALGS[concrete(a2)]]
    steps = [concrete(x) for x in (s0, s1, s2, s3, s4, s5)][:concrete(n)]
    held = [None, None, None]
    ok = True
    signed = 0
    for st in steps:
        e, op = st // 2, st % 2
        if op == 0:
            held[e] = ENT[e].get_signer(algs[e])
        elif held[e] is not None:
            octets = ("SAMLRequest=m%d&SigAlg=x" % e).encode("ascii")
            sig = held[e].sign(octets)
            signed += 1
            ok = ok and sig.startswith(("SIG|%s|" % KEYS[e].name).encode("ascii"))
            # and it verifies under that entity's key, under nobody else's
            for o in range(3):
                ok = ok and (held[e].verify(octets, sig, KEYS[o]) == (o == e))
    return ok, signed > 0, "steps=%r" % (steps,)


RS = ["", "relay", "a&b=c", "https://sp.example.org/return?next=%2Fhome", "100%", "back to c++ start"]
MUT = ["none", "change message", "change RelayState", "remove RelayState", "add RelayState", "SigAlg -> other supported", "SigAlg -> unsupported (md5)",
       "SigAlg -> garbage", "remove SigAlg", "swap message and RelayState", "Signature of another entity for the same query", "truncate Signature",
       "response instead of request key", "RelayState replaced by its percent-decoded form", "'+' in RelayState -> blank", "blank in RelayState -> '+'", "'+' in the message parameter -> blank"]


def url_binding(ent: int, alg: int, rs: int, mut: int, vkey: int, response: bool):
    """A URL signed for entity `ent` verifies under that entity's key and no other; every
    single-parameter mutation of the signed query stops it verifying; unsupported / missing
    algorithm never verifies."""
    ent, alg, rs, mut, vkey, response = [concrete(x) for x in (ent, alg, rs, mut, vkey, response)]
    typ = "SAMLResponse" if response else "SAMLRequest"
    signer = ENT[ent].get_signer(ALGS[alg])
    info = pack.http_redirect_message(MSG, "https://idp.example.com/sso", RS[rs], typ, ALGS[alg], signer)
    loc = dict(info["headers"])["Location"]
    with untraced():
        q = dict((k, v[0]) for k, v in parse_qs(urlsplit(loc).query, keep_blank_values=True).items())
    applicable = True
    if mut == 1:
        q[typ] = q[typ][:-4] + ("AAAA" if not q[typ].endswith("AAAA") else "BBBB")
    elif mut == 2:
        if "RelayState" in q:
            q["RelayState"] = q["RelayState"] + "x"
        else:
            applicable = False
    elif mut == 3:
        if "RelayState" in q:
            del q["RelayState"]
        else:
            applicable = False
    elif mut == 4:
        if "RelayState" not in q:
            q["RelayState"] = "injected"
        else:
            applicable = False
    elif mut == 5:
        q["SigAlg"] = ALGS[(alg + 1) % len(ALGS)]
    elif mut == 6:
        q["SigAlg"] = SIG_RSA_MD5
    elif mut == 7:
        q["SigAlg"] = "urn:garbage"
    elif mut == 8:
        del q["SigAlg"]
    elif mut == 9:
        if "RelayState" in q:
            q[typ], q["RelayState"] = q["RelayState"], q[typ]
        else:
            applicable = False
    elif mut == 10:
        other = ENT[(ent + 1) % 3].get_signer(ALGS[alg])
        octets = "&".join(["%s=%s" % (k, v) for k, v in []])
        info2 = pack.http_redirect_message(MSG, "https://idp.example.com/sso", RS[rs], typ, ALGS[alg], other)
        with untraced():
            q2 = dict((k, v[0]) for k, v in parse_qs(urlsplit(dict(info2["headers"])["Location"]).query, keep_blank_values=True).items())
        q["Signature"] = q2["Signature"]
    elif mut == 11:
        q["Signature"] = base64.b64encode(base64.b64decode(q["Signature"])[:-1]).decode("ascii")
    elif mut == 12:
        other_typ = "SAMLRequest" if response else "SAMLResponse"
        q[other_typ] = q.pop(typ)
    elif mut == 13:
        from urllib.parse import unquote
        if "RelayState" in q and unquote(q["RelayState"]) != q["RelayState"]:
            q["RelayState"] = unquote(q["RelayState"])
        else:
            applicable = False
    elif mut == 14:
        if "+" in q.get("RelayState", ""):
            q["RelayState"] = q["RelayState"].replace("+", " ")
        else:
            applicable = False
    elif mut == 15:
        if " " in q.get("RelayState", ""):
            q["RelayState"] = q["RelayState"].replace(" ", "+")
        else:
            applicable = False
    elif mut == 16:
        if "+" in q[typ]:
            q[typ] = q[typ].replace("+", " ")
        else:
            applicable = False
    if not applicable:
        return True, False, "mutation not applicable"
    res = False
    exc = None
    try:
        res = bool(verify_redirect_signature(q, ENT[vkey], sigkey=KEYS[vkey]))
    except Exception as e:
        exc = e
    if mut == 10:
        expect = vkey == (ent + 1) % 3        # it is, genuinely, the other entity's signature over the same octets
    else:
        expect = (mut == 0) and (vkey == ent)
    return res == expect, True, "verified=%s expected=%s exc=%r" % (res, expect, exc)


# ---- through Entity.apply_binding: two real entities in one process ------------------------------
from harness import fixtures as F                      # noqa: E402
from saml2_tophat import BINDING_HTTP_REDIRECT         # noqa: E402
CLIENTS = [F.mk_client(), F.mk_client(F.sp_conf(entityid=F.SP2_ID, acs_post=F.ACS2_POST, acs_redirect=None))]
for _i, _c in enumerate(CLIENTS):
    _c.sec.sec_backend = ENT[_i]                        # distinct keys A and B (ideal scheme)


NEUTRAL = RSACrypto(Key("N"))           # a backend that only ever verifies (what a third party sees)


def entities(first: int, a1: int, a2: int, rs: int, third: bool, received: int = 0):
    """Two entities in one process sign redirects through Entity.apply_binding one after the
    other (optionally the first one again afterwards): every URL verifies under its sender's key
    and under nobody else's."""
    first, a1, a2, rs, third, received = [concrete(x) for x in (first, a1, a2, rs, third, received)]
    order = [first, 1 - first] + ([first] if third else [])
    algs = [ALGS[a1], ALGS[a2], ALGS[a1]]
    ok = True
    # `received`: bit e set = entity e has, before sending anything, verified a redirect it received
    # from the other entity (its own backend, the peer's key) - a fresh pair of backends per call
    for _i, _c in enumerate(CLIENTS):
        ENT[_i] = RSACrypto(KEYS[_i])
        _c.sec.sec_backend = ENT[_i]
    for e in (0, 1):
        if received & (1 << e):
            peer = 1 - e
            info = pack.http_redirect_message(MSG, "https://sp.example.org/slo", RS[rs], "SAMLRequest", algs[e], RSACrypto(KEYS[peer]).get_signer(algs[e]))
            with untraced():
                q = dict((k, v[0]) for k, v in parse_qs(urlsplit(dict(info["headers"])["Location"]).query, keep_blank_values=True).items())
            try:
                ok = ok and bool(verify_redirect_signature(dict(q), ENT[e], sigkey=KEYS[peer]))
            except Exception:
                ok = False
    for n, e in enumerate(order):
        info = CLIENTS[e].apply_binding(BINDING_HTTP_REDIRECT, MSG, "https://idp.example.com/sso", RS[rs], sign=True, sigalg=algs[n])
        loc = dict(info["headers"])["Location"]
        with untraced():
            q = dict((k, v[0]) for k, v in parse_qs(urlsplit(loc).query, keep_blank_values=True).items())
        for v in (0, 1):
            res = False
            try:
                res = bool(verify_redirect_signature(dict(q), ENT[v], sigkey=KEYS[v]))
            except Exception:
                res = False
            ok = ok and (res == (v == e))
            try:
                res = bool(verify_redirect_signature(dict(q), NEUTRAL, sigkey=KEYS[v]))
            except Exception:
                res = False
            ok = ok and (res == (v == e))
    return ok, True, "order=%r received=%r" % (order, received)


def _rs_for(m, e):
    if m == 13:
        return 3                    # needs a RelayState that contains a percent escape
    if m in (14, 15):
        return 5                    # ... one with '+' and blanks
    if m == 0:
        return 3 + e if e else 1           # liveness also for RelayStates with '%', '+' and blanks
    if m in (2, 3, 9):
        return 1 + (e % 2)          # these mutations need a RelayState to act on
    if m == 4:
        return 0                    # ... and this one needs it absent
    return (m + e) % 3


CONDITIONS = [
    Cond(name="schedule", fn="schedule",
         params=[("s0", "int"), ("s1", "int"), ("s2", "int"), ("s3", "int"), ("s4", "int"), ("s5", "int"), ("n", "int"),
                 ("a0", "int"), ("a1", "int"), ("a2", "int")],
         pre=["0 <= s0 < 6", "0 <= s1 < 6", "0 <= s2 < 6", "0 <= s3 < 6", "0 <= s4 < 6", "0 <= s5 < 6", "1 <= n <= 6",
              "0 <= a0 < 5", "0 <= a1 < 5", "0 <= a2 < 5"],
         partitions={"quick": [{"n": 3, "s3": 0, "s4": 0, "s5": 0, "a0": 2, "a1": 2, "a2": a, "s0": x} for a in (2, 4) for x in range(6)] +
                              [{"n": 4, "s4": 0, "s5": 0, "a0": 2, "a1": 2, "a2": 2, "s0": x, "s1": y} for x in range(6) for y in range(6)],
                     "thorough": [{"n": 5, "s5": 0, "a0": 2, "a1": 2, "a2": 2 if (x + y) % 3 else 4, "s0": x, "s1": y} for x in range(6) for y in range(6)]},
         timeout={"quick": 600, "thorough": 1800}, path_timeout=60,
         functions=["sigver.RSACrypto.get_signer", "sigver.RSASigner.sign/verify", "sigver.SIGNER_ALGS"],
         bounds="three entities with distinct keys; every schedule of up to 4 (quick) / 5 (thorough) steps over {get_signer, sign} x entity at call granularity; "
                "entities on the same or on different algorithms"),
    Cond(name="url_binding", fn="url_binding",
         params=[("ent", "int"), ("alg", "int"), ("rs", "int"), ("mut", "int"), ("vkey", "int"), ("response", "bool")],
         pre=["0 <= ent < 3", "0 <= alg < 5", "0 <= rs < %d" % len(RS), "0 <= mut < %d" % len(MUT), "0 <= vkey < 3"],
         partitions={"quick": [{"mut": m, "alg": (m + e) % 5, "rs": _rs_for(m, e), "response": (m + e) % 2 == 0, "ent": e} for m in range(len(MUT)) for e in range(3)],
                     "thorough": [{"mut": m, "alg": a, "response": (m + a) % 2 == 0, "ent": (m + a) % 3} for m in range(len(MUT)) for a in range(5)]},
         timeout={"quick": 600, "thorough": 1200}, path_timeout=60,
         functions=["pack.http_redirect_message (signed branch)", "sigver.verify_redirect_signature", "sigver.RSACrypto.get_signer", "sigver.RSASigner.sign/verify"],
         bounds="3 signing entities x 5 RSA-SHA algorithms x RelayState {absent, plain, with '&' and '=', with a percent escape, with a bare '%', with '+' and blanks} x 17 single mutations of the signed query x verification under each of the 3 keys x request/response"),
]

CONDITIONS.append(
    Cond(name="entities", fn="entities", params=[("first", "int"), ("a1", "int"), ("a2", "int"), ("rs", "int"), ("third", "bool"), ("received", "int")],
         pre=["0 <= first <= 1", "0 <= a1 < 5", "0 <= a2 < 5", "0 <= rs < %d" % len(RS), "0 <= received <= 3"],
         partitions={"quick": [{"a1": a, "a2": a, "rs": a % len(RS), "third": True} for a in range(5)] + [{"a1": 2, "a2": 4, "rs": 5, "third": True}],
                     "thorough": [{"a1": a, "a2": b, "first": (a + b) % 2, "rs": (a + 2 * b) % len(RS)} for a in range(5) for b in range(5)]},
         timeout={"quick": 600, "thorough": 1200}, path_timeout=120,
         functions=["entity.Entity.apply_binding (HTTP-Redirect, sign=True)", "httpbase.HTTPBase.use_http_get", "pack.http_redirect_message", "sigver.verify_redirect_signature"],
         bounds="two Saml2Client entities with distinct keys in one process signing one after the other (either order, optionally the first again), same or different algorithms (quick: always with the first entity signing again); each entity may first have verified a redirect received from the other (own backend, peer's key); every URL is also verified by a neutral third backend"))

ASSUMPTIONS = [
    "ideal signature scheme: cryptography.asymmetric.key_sign returns the (key, digest, message) triple, key_verify compares triples - the RSA mathematics are C code outside the claim",
    "interleavings at call granularity (get_signer / sign); finer bytecode-level interleavings are outside - a violation at call granularity is already real",
    "message and RelayState from small catalogues (string handling of the query is C14's subject)",
]
