"""In-process, digest-faithful model of what xmlsec1 --verify does with
    --enabled-reference-uris empty,same-doc --id-attr:ID <node name> --node-id <id>
written from the xmlsec1 manual and libxmlsec's behaviour (contract, see DESIGN.md 3/C01):

 * only elements whose qualified name is <node name> get their ID attribute registered as an XML ID;
   on duplicate values the first in document order wins;
 * the start node is the element registered under --node-id;
 * the signature verified is the first ds:Signature in document order starting at the start node
   (xmlSecFindNode: the node, its descendants, then its following siblings and theirs);
 * SignatureValue must be the keyed value of the canonical SignedInfo (only the key owner can make it);
 * every Reference is dereferenced same-document through the ID table, the enveloped-signature
   transform removes the Signature being verified from the target, and DigestValue must equal the
   digest of the target's canonical form.

Canonical form here = a context-free structural rendering (qualified tag, sorted attributes, text,
children, tails): byte-identical copies digest equally wherever they sit in a document.  This is a
consistent signer/verifier pair; it is not interoperable with real xmlsec1 and never needs to be."""
import hashlib
import hmac
import xml.etree.ElementTree as ET

DS = "http://www.w3.org/2000/09/xmldsig#"
SIG = "{%s}Signature" % DS
KEYS = {"idp": b"idp-private-key"}


def canon(e, skip=None):
    if e is skip:
        return ""
    kids = "".join(canon(c, skip) + "|T:" + (c.tail or "").strip() for c in e if c is not skip)
    return "<%s %s>%s|%s</>" % (e.tag, sorted(e.attrib.items()), (e.text or "").strip(), kids)


def digest(e, skip=None):
    return hashlib.sha256(canon(e, skip).encode("utf-8")).hexdigest()


def sigvalue(key, signed_info):
    return hmac.new(key, canon(signed_info).encode("utf-8"), hashlib.sha256).hexdigest()


def qname(node_name):
    ns, tag = node_name.rsplit(":", 1)
    return "{%s}%s" % (ns, tag)


def sign_in_place(root, node_name, node_id, key=KEYS["idp"]):
    """Fill DigestValue / SignatureValue of the Signature template that is a direct child of the
    element (node_name, node_id)."""
    target = [e for e in root.iter(qname(node_name)) if e.get("ID") == node_id][0]
    sig = [c for c in target if c.tag == SIG][0]
    si = sig.find("{%s}SignedInfo" % DS)
    for ref in si.findall("{%s}Reference" % DS):
        ref.find("{%s}DigestValue" % DS).text = digest(target, skip=sig)
    sig.find("{%s}SignatureValue" % DS).text = sigvalue(key, si)


def _docorder_from(start, root):
    """xmlSecFindNode order: start, its descendants, then following siblings (and theirs), as the C
    function walks cur, cur->children, cur->next."""
    parent = {c: p for p in root.iter() for c in p}
    yield from start.iter()
    p = parent.get(start)
    if p is not None:
        sibs = list(p)
        for s in sibs[sibs.index(start) + 1:]:
            yield from s.iter()


def verify(text, node_name, node_id, key=KEYS["idp"]):
    """-> (ok, reason)"""
    try:
        root = ET.fromstring(text)
    except Exception as e:
        return False, "not well-formed: %s" % e
    qn = qname(node_name)
    ids = {}
    for e in root.iter(qn):
        v = e.get("ID")
        if v is not None and v not in ids:
            ids[v] = e
    start = ids.get(node_id)
    if start is None:
        return False, "node id not found"
    parent = {c: p for p in root.iter() for c in p}
    sig = None
    for e in _docorder_from(start, root):
        if e.tag == SIG:
            sig = e
            break
    if sig is None:
        return False, "no signature found"
    si = sig.find("{%s}SignedInfo" % DS)
    sv = sig.find("{%s}SignatureValue" % DS)
    if si is None or sv is None or (sv.text or "").strip() != sigvalue(key, si):
        return False, "signature value does not match SignedInfo"
    refs = si.findall("{%s}Reference" % DS)
    if not refs:
        return False, "no reference"
    for ref in refs:
        uri = ref.get("URI")
        if uri is None:
            return False, "reference without URI"
        if uri == "":
            target = root
        elif uri.startswith("#"):
            target = ids.get(uri[1:])
            if target is None:
                return False, "reference %s does not resolve" % uri
        else:
            return False, "external reference disabled"
        dv = ref.find("{%s}DigestValue" % DS)
        if dv is None or (dv.text or "").strip() != digest(target, skip=sig):
            return False, "digest mismatch for %s" % uri
    return True, "OK"
