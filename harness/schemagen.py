"""Reflection over the generated schema modules + generator of valid instances (shared by C12/C13).

The generator is deliberately simple: required attributes get a value from a per-type table,
children are present at their declared minimum, recursion is depth-bounded.  An instance that the
real valid_instance() does not accept is not used (the class is reported and excluded by name)."""
import importlib
import inspect

from veriflib import boot
boot.install(clock=False, stubs=False)

import saml2_tophat                                        # noqa: E402
from saml2_tophat import SamlBase                          # noqa: E402

QUICK_MODULES = ["saml2_tophat.saml", "saml2_tophat.samlp", "saml2_tophat.md", "saml2_tophat.xmldsig", "saml2_tophat.xmlenc"]
ALL_MODULES = QUICK_MODULES + [
    "saml2_tophat.extension.algsupport", "saml2_tophat.extension.dri", "saml2_tophat.extension.idpdisc",
    "saml2_tophat.extension.mdattr", "saml2_tophat.extension.mdrpi", "saml2_tophat.extension.mdui",
    "saml2_tophat.extension.pefim", "saml2_tophat.extension.reqinit", "saml2_tophat.extension.requested_attributes",
    "saml2_tophat.extension.shibmd", "saml2_tophat.extension.sp_type",
    "saml2_tophat.schema.soap", "saml2_tophat.schema.soapenv", "saml2_tophat.schema.wsdl",
    "saml2_tophat.ws.wsaddr", "saml2_tophat.ws.wspol", "saml2_tophat.ws.wssec", "saml2_tophat.ws.wstrust", "saml2_tophat.ws.wsutil",
    "saml2_tophat.profile.ecp", "saml2_tophat.profile.paos",
    "saml2_tophat.authn_context.ippword", "saml2_tophat.authn_context.mobiletwofactor", "saml2_tophat.authn_context.ppt",
    "saml2_tophat.authn_context.pword", "saml2_tophat.authn_context.sslcert", "saml2_tophat.authn_context.timesync",
]

TYPE_VALUES = {
    "ID": "id-1", "NCName": "name1", "dateTime": "2020-01-02T03:04:05Z", "anyURI": "http://example.org/x",
    "nonNegativeInteger": "1", "PositiveInteger": "1", "positiveInteger": "1", "boolean": "true", "unsignedShort": "1",
    "duration": "PT1H", "base64Binary": "QUJD", "integer": "1", "QName": "a:b", "anyType": "x", "string": "text", "": "text",
}
# values that are outside the XSD lexical space of the type (XML Schema part 2) - each must be rejected
BAD_VALUES = {
    "dateTime": ["yesterday", "2001-13-01T00:00:00Z", "2001-01-01", "2021-02-30T10:00:00Z", "2021-04-31T10:00:00.5Z",
                 "2021-01-01T25:00:00.5Z", "2021-01-01T10:61:00.123Z",
                 # a well-formed instant followed by something else
                 "2020-02-03T04:05:06Zulu", "2020-02-03T04:05:06.78nine", "2020-02-03T04:05:06+25:99"],
    "boolean": ["yes", "2", "tru"],
    "nonNegativeInteger": ["-1", "abc", "1.5"],
    "PositiveInteger": ["0", "-1", "abc"],
    "positiveInteger": ["0", "-1", "abc"],
    "unsignedShort": ["70000", "-1", "abc"],
    "integer": ["abc", "1.5", "0x10"],
    "duration": ["abc", "1Y2M", "PxY"],
}


def modules(names):
    out = []
    for n in names:
        try:
            out.append(importlib.import_module(n))
        except Exception:
            pass
    return out


def classes_of(mod):
    res = []
    for name, obj in sorted(vars(mod).items()):
        if inspect.isclass(obj) and issubclass(obj, SamlBase) and obj.__module__ == mod.__name__ \
                and getattr(obj, "c_tag", None) and getattr(obj, "c_namespace", None):
            res.append(obj)
    return res


def base_of(typ):
    """-> (kind, spec): kind in {'simple', 'enum', 'list', 'class-string'}"""
    if isinstance(typ, type):
        vt = getattr(typ, "c_value_type", None)
        if vt and "enumeration" in vt:
            return "enum", vt
        if vt and vt.get("base") == "list":
            return "list", vt
        if vt:
            b = vt.get("base", "string")
            return "simple", b.split(":")[-1]
        return "simple", "string"
    return "simple", (typ or "").split(":")[-1]


def value_for(typ):
    kind, spec = base_of(typ)
    if kind == "enum":
        return spec["enumeration"][0]
    if kind == "list":
        return TYPE_VALUES.get(spec.get("member", "").split(":")[-1], "text")
    return TYPE_VALUES.get(spec, "text")


def bad_values_for(typ):
    kind, spec = base_of(typ)
    if kind == "enum":
        return ["Bogus-value-not-in-enumeration"]
    if kind == "simple":
        return BAD_VALUES.get(spec, [])
    return []


def child_class(spec):
    return spec[0] if isinstance(spec, list) else spec


def make_valid(cls, depth=0, maxdepth=6):
    inst = cls()
    for xmlname, (pyname, typ, required) in cls.c_attributes.items():
        if required:
            setattr(inst, pyname, value_for(typ))
    vt = getattr(cls, "c_value_type", None)
    if vt:
        inst.text = value_for(cls)
    if cls.__name__ == "AttributeValue" or (not vt and not cls.c_children and not cls.c_attributes):
        inst.text = inst.text or "text"
    if depth < maxdepth:
        for tag, (pyname, spec) in cls.c_children.items():
            card = cls.c_cardinality.get(pyname)
            cmin = (card or {}).get("min", 0) or 0
            if cmin:
                kids = [make_valid(child_class(spec), depth + 1, maxdepth) for _ in range(cmin)]
                setattr(inst, pyname, kids if isinstance(spec, list) else kids[0])
    # class specific verify() demands
    if cls.__name__ in ("Assertion", "AssertionType_"):
        from saml2_tophat import saml
        inst.subject = saml.Subject(name_id=saml.NameID(text="subject"))
        inst.issuer = saml.Issuer(text="urn:issuer")
    return inst


def violations_of(cls):
    """Enumerate single-constraint violations declared by the class tables:
    ('req_attr', pyname) | ('typed_attr', pyname, typ) | ('typed_text',) | ('min', pyname, spec, cmin) | ('max', pyname, spec, cmax)"""
    v = []
    for xmlname, (pyname, typ, required) in sorted(cls.c_attributes.items()):
        if required:
            v.append(("req_attr", pyname))
        if bad_values_for(typ):
            v.append(("typed_attr", pyname, typ))
    if getattr(cls, "c_value_type", None) and bad_values_for(cls):
        v.append(("typed_text",))
    for tag, (pyname, spec) in sorted(cls.c_children.items()):
        card = cls.c_cardinality.get(pyname)
        if not card:
            continue
        if card.get("min"):
            v.append(("min", pyname, spec, card["min"]))
        if card.get("max") is not None and isinstance(spec, list):
            v.append(("max", pyname, spec, card["max"]))
    return v


def parents_of(cls, universe):
    res = []
    for p in universe:
        for tag, (pyname, spec) in p.c_children.items():
            if child_class(spec) is cls:
                res.append((p, pyname, spec))
    return res
