"""C08 - what the IdP asserts is what the SP reads, for any content.

IdP and SP are configured from each other's generated metadata.  The IdP builds a response with
Server.create_authn_response, the text goes through the real serialiser, base64, the SP's real
parser and Saml2Client.parse_authn_request_response.  Content is assembled from symbolic indices
into alphabets of XML-special, multi-byte, whitespace and look-alike-markup strings (concrete per
path, so the C text layer really runs).  Signing and encryption are the model backend's."""
import base64
from harness import fixtures as F
from harness.idpfix import IdPFixture, ModelBackend
from veriflib.boot import Clock, concrete, untraced
from veriflib import timemodel
from veriflib.runner import Cond
from saml2_tophat import saml, samlp, BINDING_HTTP_POST, BINDING_SOAP
from saml2_tophat.population import Population
from saml2_tophat.s_utils import factory

NOW = 1000000
IDP = IdPFixture([F.sp_conf()])
BACK = IDP.backend                     # one backend on both sides: what it encrypts it can decrypt
SP = F.mk_client()
SP.sec.crypto = BACK
VALS = ["Alice", "<b>", "&amp;", "a&b", "\"q'", "é", "日本", "\U0001F600", "  padded  ", "l1\nl2", "<!--x-->", "<saml:Attribute Name=\"evil\"/>",
        "]]>", "x" * 300, "a\tb", "0", "<?xml version='1.0'?>", "", "   ", "CORP\\user1", "EXAMPLE\\north"]
NV = len(VALS)
SLACKS = [0, 1, 180, 86400]
LIFETIME = 15 * 60                      # the IdP fixture's policy lifetime: expiry read when no SessionNotOnOrAfter is asserted
FORMATS = [saml.NAMEID_FORMAT_TRANSIENT, saml.NAMEID_FORMAT_PERSISTENT, saml.NAMEID_FORMAT_EMAILADDRESS, saml.NAMEID_FORMAT_UNSPECIFIED]
ACS = ["urn:oasis:names:tc:SAML:2.0:ac:classes:Password", "urn:oasis:names:tc:SAML:2.0:ac:classes:PasswordProtectedTransport",
       "urn:oasis:names:tc:SAML:2.0:ac:classes:unspecified"]


def roundtrip(v1: int, v2: int, v3: int, nid: int, fmt: int, ac: int, sign_response: bool, sign_assertion: bool, encrypt: bool,
              want: int, session: bool, soap: bool = False, slack: int = 0):
    v1, v2, v3, nid, fmt, ac, want, slack = [concrete(x) for x in (v1, v2, v3, nid, fmt, ac, want, slack)]
    sign_response, sign_assertion, encrypt, session, soap = [concrete(x) for x in (sign_response, sign_assertion, encrypt, session, soap)]
    ck = Clock(NOW)
    IDP.reset()
    BACK.vault = {}
    identity = {"givenName": [VALS[v1]], "mail": [VALS[v2], VALS[v3]] if v3 != v2 else [VALS[v2]]}
    nid_text = VALS[nid] if VALS[nid].strip() else "subject"
    name_id = saml.NameID(format=FORMATS[fmt], text=nid_text, sp_name_qualifier=F.SP_ID)
    sess = NOW + 1800 if session else None
    sess_txt = ck.stamp(7, sess) if session else None
    out = IDP.server.create_authn_response(
        dict((k, list(v)) for k, v in identity.items()), "id-req1", F.ACS_POST, F.SP_ID, name_id=name_id,
        authn={"class_ref": ACS[ac], "authn_auth": "http://idp.example.com/login"},
        sign_response=sign_response, sign_assertion=sign_assertion, encrypt_assertion=encrypt,
        session_not_on_or_after=sess_txt)
    text = "%s" % out
    if soap:
        try:
            wire = IDP.server.apply_binding(BINDING_SOAP, text, F.ACS_POST, response=True)["data"]
        except Exception as e:
            return False, True, "packaging failed: %r" % e
    else:
        wire = base64.b64encode(text.encode("utf-8")).decode("ascii")
    # the SP's signature requirements are satisfied by what the IdP signed
    want_resp = sign_response and want in (0, 2)
    want_ass = sign_assertion and want in (1, 2)
    SP.want_response_signed, SP.want_assertions_signed = want_resp, want_ass
    SP.want_assertions_or_response_signed = (want == 3) and (sign_response or sign_assertion)
    SP.allow_unsolicited = False
    SP.config.accepted_time_diff = SLACKS[slack]        # the SP's clock-skew allowance must not change what the application reads
    SP.users = Population()
    resp = None
    exc = None
    try:
        resp = SP.parse_authn_request_response(wire, BINDING_SOAP if soap else BINDING_HTTP_POST, {"id-req1": "/came/from"})
    except Exception as e:
        exc = e
    if resp is None:
        return False, True, "rejected: %r" % exc
    ok = True
    why = []
    exp_ava = dict((k, [x.strip() for x in v]) for k, v in identity.items())
    got = dict((k, list(v)) for k, v in (resp.ava or {}).items())
    if got != exp_ava:
        ok = False
        why.append("ava %r != %r" % (got, exp_ava))
    if resp.name_id is None or resp.name_id.text.strip() != nid_text.strip() or resp.name_id.format != FORMATS[fmt]:
        ok = False
        why.append("name_id %r" % (None if resp.name_id is None else (resp.name_id.text, resp.name_id.format)))
    si = resp.session_info()
    if resp.in_response_to != "id-req1" or si["issuer"] != F.IDP_ID or ((not soap) and resp.came_from != "/came/from"):
        ok = False
        why.append("irt/issuer/came_from %r %r %r" % (resp.in_response_to, si["issuer"], resp.came_from))
    if [a[0] for a in si["authn_info"]] != [ACS[ac]]:
        ok = False
        why.append("authn_info %r" % (si["authn_info"],))
    exp_expiry = sess if session else NOW + LIFETIME
    if si["not_on_or_after"] != exp_expiry:
        ok = False
        why.append("session expiry %r != %r" % (si["not_on_or_after"], exp_expiry))
    # values are data: the SP finds exactly one assertion carrying exactly the two attributes
    n_ass = len(resp.assertions)
    n_attr = sum(len(st.attribute) for a in resp.assertions for st in a.attribute_statement)
    if n_ass != 1 or n_attr != 2:
        ok = False
        why.append("structure changed: %d assertions, %d attributes" % (n_ass, n_attr))
    return ok, True, "; ".join(why) or "ok"


_P = [("v1", "int"), ("v2", "int"), ("v3", "int"), ("nid", "int"), ("fmt", "int"), ("ac", "int"), ("sign_response", "bool"),
      ("sign_assertion", "bool"), ("encrypt", "bool"), ("want", "int"), ("session", "bool"), ("soap", "bool"), ("slack", "int")]
_PRE = ["0 <= v1 < %d" % NV, "0 <= v2 < %d" % NV, "0 <= v3 < %d" % NV, "0 <= nid < %d" % NV, "0 <= fmt < %d" % len(FORMATS), "0 <= ac < %d" % len(ACS), "0 <= want <= 3", "0 <= slack < %d" % len(SLACKS)]
CONDITIONS = [
    Cond(name="roundtrip", fn="roundtrip", params=_P, pre=_PRE,
         partitions={"quick": [{"v1": a, "v2": (a * 7 + 3) % NV, "v3": (a * 5 + 1) % NV, "nid": (a * 3 + 2) % NV, "fmt": a % 4, "ac": a % 3,
                                "sign_response": a % 2 == 0, "sign_assertion": (a // 2) % 2 == 0, "want": a % 4, "session": a % 3 == 0, "soap": a % 2 == 1, "slack": a % len(SLACKS)} for a in range(NV)],
                     "thorough": [{"v1": a, "v2": (a * 7 + 3) % NV, "v3": a, "nid": a, "fmt": f, "ac": a % 3, "want": (a + f) % 4, "session": a % 2 == 0, "slack": (a + f) % len(SLACKS)}
                                  for a in range(NV) for f in range(4)]},
         timeout={"quick": 900, "thorough": 2400}, path_timeout=120,
         functions=["server.Server.create_authn_response/_authn_response/setup_assertion", "entity.Entity._response/_encrypt_assertion", "assertion.Assertion.construct",
                    "attribute_converter.from_local/to_local", "SamlBase.to_string (ElementTree serialisation)", "client_base.Base.parse_authn_request_response",
                    "entity.Entity._parse_response/unravel", "response.AuthnResponse.loads/verify/parse_assertion/get_identity/session_info", "metadata.entity_descriptor (fixtures)"],
         bounds="attribute values (givenName single, mail 1-2 values) and NameID text from a %d-entry alphabet (XML-special, quotes, non-ASCII, astral, padded, line breaks, comment / element / "
                "declaration look-alikes, ']]>', 300 chars); 4 NameID formats; 3 authn context classes; sign_response x sign_assertion x encrypt_assertion; 4 SP requirement settings "
                "(satisfied by what is signed); session expiry present/absent (read back as SessionNotOnOrAfter resp. the policy lifetime); SP clock-skew allowance in {0, 1, 180, 86400} s; POST and SOAP bindings. quick: one diagonal sample per alphabet entry with encrypt free" % NV),
]

ASSUMPTIONS = [
    "IdP and SP configured from each other's library-generated metadata (harness/fixtures.py)",
    "signing = statement returned unchanged, verification = accept, encryption = opaque token with vault (harness/idpfix.py ModelBackend): the cryptography itself is xmlsec1's",
    "strings are concrete per path (symbolic indices into the alphabet), so ElementTree serialisation, base64 and expat really run",
    "POST and SOAP bindings (Redirect packaging of responses is C14's subject); digest/signature algorithm settings only choose template URIs and are not varied",
    "NameID text is never empty (schema: a NameID without text is not valid); attribute values may be empty or blank (read back as '')",
    "integer clock model, fixed clock; id generator stubbed",
]
