"""C10 - incoming requests are validated before an IdP or SP acts on them."""
import base64
from harness import fixtures as F
from harness.common import HandOverSec
from harness.spfix import StubBackend
from veriflib.boot import Clock
from veriflib import timemodel
from veriflib.runner import Cond
from saml2_tophat import saml, samlp, BINDING_HTTP_POST, BINDING_HTTP_REDIRECT, BINDING_SOAP
from saml2_tophat import request as RQ
from saml2_tophat.request import AuthnRequest, LogoutRequest, AttributeQuery
from saml2_tophat.s_utils import deflate_and_base64_encode
from saml2_tophat.sigver import pre_signature_part

DAY = 86400
EP1 = "http://idp.example.com/sso/redirect"
EP2 = "http://idp.example.com/sso/post"
VERSIONS = ["2.0", "1.1", "3.0", "x"]
KINDS = [
    (AuthnRequest, lambda **k: samlp.AuthnRequest(**k)),
    (LogoutRequest, lambda **k: samlp.LogoutRequest(name_id=saml.NameID(text="x"), **k)),
    (AttributeQuery, lambda **k: samlp.AttributeQuery(subject=saml.Subject(name_id=saml.NameID(text="x")), **k)),
]


def fields(kind: int, has_dest: bool, dest: str, naddr: int, version: int, now: int, ii: int, slack: int, tz: int = 0):
    """Request._loads/_verify on a handed-over request object: Destination is a symbolic string,
    the receiver has 0, 1 or 2 endpoints for the service, IssueInstant/now/slack are symbolic."""
    ck = Clock(now, tz)
    cls, mk = KINDS[kind]
    msg = mk(id="id-q1", version=VERSIONS[version], issue_instant=ck.stamp(1, ii),
             issuer=saml.Issuer(text=F.SP_ID), destination=dest if has_dest else None)
    addrs = [EP1, EP2][:naddr]
    rq = cls(HandOverSec(), addrs, [], timeslack=slack)
    rq.signature_check = lambda xml, **kw: msg
    saved = RQ.valid_instance
    RQ.valid_instance = lambda _x: True     # anyURI validation of a symbolic string does not close (see C05); C13 covers it
    acc = False
    exc = None
    try:
        r = rq.loads("<concrete/>", None)
        acc = (r is not None) and (r.verify() is not None)
    except Exception as e:
        exc = e
    finally:
        RQ.valid_instance = saved
    dest_ok = (not has_dest) | (dest == "") | ((naddr >= 1) & (dest == EP1)) | ((naddr >= 2) & (dest == EP2))
    time_ok = (now - ii <= DAY + slack) & (ii - now <= DAY + slack)
    roomy = (now - ii < DAY) & (ii - now < DAY)
    ok = ((not acc) | ((version == 0) & dest_ok & time_ok)) & ((not ((version == 0) & dest_ok & roomy)) | acc)
    return ok, acc | (not dest_ok), "accepted=%s exc=%r" % (acc, exc)


def invalid(kind: int, drop: int):
    """Schema validation comes before use: a request lacking ID / Version / IssueInstant, or of
    the wrong type, is refused (valid_instance is real here)."""
    ck = Clock(1000000)
    cls, mk = KINDS[kind]
    kw = dict(id="id-q1", version="2.0", issue_instant=ck.stamp(1, 1000000), issuer=saml.Issuer(text=F.SP_ID))
    if drop == 1:
        kw["id"] = None
    elif drop == 2:
        kw["issue_instant"] = None
    elif drop == 3:
        kw["version"] = None
    elif drop == 4:
        kw["issue_instant"] = "yesterday"
    msg = mk(**kw)
    if drop == 5:
        msg = None            # signature_check found no message of the expected type
    rq = cls(HandOverSec(), [EP1], [], timeslack=0)
    rq.signature_check = lambda xml, **kw2: msg
    acc = False
    exc = None
    try:
        r = rq.loads("<concrete/>", None)
        acc = (r is not None) and (r.verify() is not None)
    except Exception as e:
        exc = e
    ok = (acc == (drop == 0))
    return ok, True, "accepted=%s exc=%r" % (acc, exc)


# ------------------------------------------------------------------------------ server level
from harness.idpfix import IdPFixture      # noqa: E402
IDP = IdPFixture([F.sp_conf()])
BACK = StubBackend()
IDP.server.sec.crypto = BACK
_CK = Clock(1000000)
_T = _CK.stamp(1, 1000000)


def _doc(signed, dest, root="authn"):
    if root == "authn":
        m = samlp.AuthnRequest(id="id-q1", version="2.0", issue_instant=_T, issuer=saml.Issuer(text=F.SP_ID),
                               destination=dest, assertion_consumer_service_url=F.ACS_POST)
    else:
        m = samlp.LogoutRequest(id="id-q1", version="2.0", issue_instant=_T, issuer=saml.Issuer(text=F.SP_ID),
                                destination=dest, name_id=saml.NameID(text="x"))
    if signed:
        m.signature = pre_signature_part("id-q1")
    return "%s" % m


DOCS = {}
for _s in (False, True):
    for _di, _d in enumerate([F.SSO_REDIRECT, F.SSO_POST, "http://evil.example.org/sso", None]):
        t = _doc(_s, _d)
        DOCS[(_s, _di, 0)] = deflate_and_base64_encode(t).decode("ascii")     # HTTP-Redirect
        DOCS[(_s, _di, 1)] = base64.b64encode(t.encode("utf-8")).decode("ascii")   # HTTP-POST
DOCS[("wrongroot", 0)] = deflate_and_base64_encode(_doc(False, F.SSO_REDIRECT, "logout")).decode("ascii")
DOCS[("garbage", 0)] = "!!!not-base64!!!"
DOCS[("truncated", 0)] = DOCS[(False, 0, 0)][:40]
BINDINGS = [BINDING_HTTP_REDIRECT, BINDING_HTTP_POST]
OWN = {0: F.SSO_REDIRECT, 1: F.SSO_POST}


def signed_req(signed: bool, verdict: bool, must: bool, dest: int, binding: int, sp_known: bool):
    """Server.parse_authn_request on really encoded documents: signature present/absent x
    verdict x want_authn_requests_signed x Destination x binding."""
    timemodel.set_clock(1000000, _CK.tab)
    BACK.verdict = {"id-q1": verdict}
    BACK.asked = []
    srv = IDP.server
    srv.config.setattr("idp", "want_authn_requests_signed", must)
    saved_md = srv.sec.metadata
    acc = False
    exc = None
    try:
        r = srv.parse_authn_request(DOCS[(signed, dest, binding)], BINDINGS[binding])
        acc = r is not None and r.message is not None
    except Exception as e:
        exc = e
    dest_ok = (dest == 3) | (dest == binding)
    expect = dest_ok & ((not signed) | verdict) & ((not must) | signed)
    ok = (acc == expect)
    if acc & signed:
        # the verification that was relied upon covered the request element itself
        ok = ok & (("urn:oasis:names:tc:SAML:2.0:protocol:AuthnRequest", "id-q1") in BACK.asked)
    return ok, acc | (not expect), "accepted=%s expected=%s exc=%r asked=%r" % (acc, expect, exc, BACK.asked)


# ---- other request types over SOAP at the IdP ---------------------------------------------------
from saml2_tophat import pack                                     # noqa: E402
_OTHER = {}
for _s in (False, True):
    for _di, _d in enumerate([F.SLO_SOAP_IDP, "http://evil.example.org/slo", None]):
        lr = samlp.LogoutRequest(id="id-q1", version="2.0", issue_instant=_T, issuer=saml.Issuer(text=F.SP_ID), destination=_d,
                                 name_id=saml.NameID(text="x"))
        aq = samlp.AttributeQuery(id="id-q1", version="2.0", issue_instant=_T, issuer=saml.Issuer(text=F.SP_ID), destination=_d,
                                  subject=saml.Subject(name_id=saml.NameID(text="x")))
        mn = samlp.ManageNameIDRequest(id="id-q1", version="2.0", issue_instant=_T, issuer=saml.Issuer(text=F.SP_ID), destination=_d,
                                       name_id=saml.NameID(text="x"), new_id=samlp.NewID(text="y"))
        for _k, _m in (("logout", lr), ("attrq", aq), ("manage", mn)):
            if _s:
                _m.signature = pre_signature_part("id-q1")
            env = pack.make_soap_enveloped_saml_thingy("%s" % _m)
            _OTHER[(_k, _s, _di)] = env if isinstance(env, str) else env.decode("utf-8")
RTYPES = ["logout", "attrq", "manage"]
RNODE = {"logout": "urn:oasis:names:tc:SAML:2.0:protocol:LogoutRequest", "attrq": "urn:oasis:names:tc:SAML:2.0:protocol:AttributeQuery",
         "manage": "urn:oasis:names:tc:SAML:2.0:protocol:ManageNameIDRequest"}


def other_requests(rtype: int, signed: bool, verdict: bool, must: bool, dest: int):
    """LogoutRequest / AttributeQuery / ManageNameIDRequest arriving SOAP-enveloped at the IdP."""
    from veriflib.boot import concrete
    rtype, signed, dest = concrete(rtype), concrete(signed), concrete(dest)
    timemodel.set_clock(1000000, _CK.tab)
    BACK.verdict = {"id-q1": verdict}
    BACK.asked = []
    srv = IDP.server
    srv.config.setattr("idp", "want_authn_requests_signed", must)
    k = RTYPES[rtype]
    acc = False
    exc = None
    try:
        if k == "logout":
            r = srv.parse_logout_request(_OTHER[(k, signed, dest)], BINDING_SOAP)
        elif k == "attrq":
            r = srv.parse_attribute_query(_OTHER[(k, signed, dest)], BINDING_SOAP)
        else:
            r = srv.parse_manage_name_id_request(_OTHER[(k, signed, dest)], BINDING_SOAP)
        acc = r is not None and r.message is not None
    except Exception as e:
        exc = e
    # the IdP fixture publishes a SOAP endpoint for single logout only
    if k == "logout":
        dest_ok = dest in (0, 2)
    else:
        dest_ok = dest == 2
    expect = dest_ok & ((not signed) | verdict) & ((not must) | signed)
    ok = acc == expect
    if acc & signed:
        ok = ok & ((RNODE[k], "id-q1") in BACK.asked)
    return ok, acc | (not expect), "accepted=%s expected=%s exc=%r" % (acc, expect, exc)


def signed_history(binding: int, must: bool, twice: bool):
    """Two requests on one long-lived IdP object: a genuinely signed one (verification answers True),
    then a copy with the same ID and Signature for which the tool answers False (content edited)."""
    from veriflib.boot import concrete
    binding, twice = concrete(binding), concrete(twice)
    timemodel.set_clock(1000000, _CK.tab)
    srv = IDP.server
    srv.config.setattr("idp", "want_authn_requests_signed", must)
    doc = DOCS[(True, binding, binding)]
    BACK.verdict = {"id-q1": True}
    BACK.asked = []
    r1 = None
    try:
        r1 = srv.parse_authn_request(doc, BINDINGS[binding])
        if twice:
            srv.parse_authn_request(doc, BINDINGS[binding])
    except Exception:
        r1 = None
    BACK.verdict = {"id-q1": False}
    n_before = len(BACK.asked)
    acc2 = False
    try:
        r2 = srv.parse_authn_request(doc, BINDINGS[binding])
        acc2 = r2 is not None and r2.message is not None
    except Exception:
        acc2 = False
    ok = (r1 is not None) & (not acc2) & (len(BACK.asked) > n_before)
    return ok, True, "first=%s second=%s asked=%d" % (r1 is not None, acc2, len(BACK.asked))


def malformed(which: int):
    timemodel.set_clock(1000000, _CK.tab)
    key = [("wrongroot", 0), ("garbage", 0), ("truncated", 0)][which]
    acc = False
    exc = None
    try:
        r = IDP.server.parse_authn_request(DOCS[key], BINDING_HTTP_REDIRECT)
        acc = r is not None and r.message is not None
    except Exception as e:
        exc = e
    return (not acc), True, "accepted=%s exc=%r" % (acc, exc)


_BIG = 1 << 33
CONDITIONS = [
    Cond(name="fields", fn="fields",
         params=[("kind", "int"), ("has_dest", "bool"), ("dest", "str"), ("naddr", "int"), ("version", "int"),
                 ("now", "int"), ("ii", "int"), ("slack", "int"), ("tz", "int")],
         pre=["-12 <= tz <= 14", "0 <= kind < 3", "len(dest) <= 40", "0 <= naddr <= 2", "0 <= version < %d" % len(VERSIONS),
              "0 < now <= %d" % _BIG, "0 < ii <= %d" % _BIG, "0 <= slack <= 315360000"],
         partitions={"quick": [{"kind": k, "naddr": n} for k in range(3) for n in range(3)]},
         timeout={"quick": 600, "thorough": 1200}, path_timeout=60,
         functions=["request.Request._loads", "request.Request._verify", "request.Request.issue_instant_ok", "request.Request.verify",
                    "time_util.shift_time/time_in_a_while/time_a_while_ago/str_to_time"],
         bounds="AuthnRequest / LogoutRequest / AttributeQuery; Destination absent or ANY string <= 40 chars vs 0, 1 or 2 own endpoints; "
                "Version in {2.0, 1.1, 3.0, x}; now, IssueInstant in (0, 2^33], slack in [0, 10 y]; process time zone -12..+14 h"),
    Cond(name="invalid", fn="invalid", params=[("kind", "int"), ("drop", "int")],
         pre=["0 <= kind < 3", "0 <= drop <= 5"], partitions={"quick": [{}]}, timeout={"quick": 300, "thorough": 300},
         functions=["request.Request._loads", "validate.valid_instance"],
         bounds="3 request types x {valid, no ID, no IssueInstant, no Version, malformed IssueInstant, not the expected type}"),
    Cond(name="signed_req", fn="signed_req",
         params=[("signed", "bool"), ("verdict", "bool"), ("must", "bool"), ("dest", "int"), ("binding", "int"), ("sp_known", "bool")],
         pre=["0 <= dest <= 3", "0 <= binding <= 1"],
         partitions={"quick": [{"dest": d, "binding": b, "sp_known": True} for d in range(4) for b in (0, 1)]},
         timeout={"quick": 600, "thorough": 1200}, path_timeout=120,
         functions=["server.Server.parse_authn_request", "entity.Entity._parse_request", "entity.Entity.unravel", "request.Request._loads/_verify",
                    "sigver.SecurityContext.correctly_signed_authn_request/correctly_signed_message/_check_signature", "config.Config.endpoint"],
         bounds="signature present/absent x verdict x want_authn_requests_signed x Destination {own Redirect endpoint, own POST endpoint, foreign, absent} "
                "x binding {Redirect (deflate+base64), POST (base64)}; finite, exhaustive"),
    Cond(name="other_requests", fn="other_requests",
         params=[("rtype", "int"), ("signed", "bool"), ("verdict", "bool"), ("must", "bool"), ("dest", "int")],
         pre=["0 <= rtype <= 2", "0 <= dest <= 2"],
         partitions={"quick": [{"rtype": t, "dest": d} for t in range(3) for d in range(3)]}, timeout={"quick": 600, "thorough": 1200}, path_timeout=120,
         functions=["entity.Entity.parse_logout_request/parse_manage_name_id_request", "server.Server.parse_attribute_query", "entity.Entity._parse_request",
                    "entity.Entity.unravel (SOAP)", "soap.parse_soap_enveloped_saml_*", "sigver.SecurityContext.correctly_signed_logout_request/_attribute_query/_manage_name_id_request"],
         bounds="LogoutRequest / AttributeQuery / ManageNameIDRequest in a SOAP envelope x signature present/absent x verdict x want_authn_requests_signed x Destination {own SOAP endpoint, foreign, absent}"),
    Cond(name="signed_history", fn="signed_history", params=[("binding", "int"), ("must", "bool"), ("twice", "bool")],
         pre=["0 <= binding <= 1"], partitions={"quick": [{"binding": 0}, {"binding": 1}]}, timeout={"quick": 600, "thorough": 900}, path_timeout=120,
         functions=["server.Server.parse_authn_request (two / three calls on one Server)", "sigver.SecurityContext._check_signature"],
         bounds="histories on one IdP object: a verified signed request (once or twice), then the same ID and Signature with a failing verification"),
    Cond(name="malformed", fn="malformed", params=[("which", "int")], pre=["0 <= which <= 2"],
         partitions={"quick": [{}]}, timeout={"quick": 300, "thorough": 300}, twin=False,
         functions=["entity.Entity._parse_request", "entity.Entity.unravel", "sigver.SecurityContext.correctly_signed_message"],
         bounds="wrong root element (LogoutRequest sent as AuthnRequest), non-base64 text, truncated encoding"),
]

ASSUMPTIONS = [
    "fields/invalid: parsed-object hand-over (stub signature_check); fields also stubs valid_instance (symbolic anyURI does not close)",
    "signed_req: xmlsec1 by contract - stub backend answers per node id; 'any modification of a signed request' = verdict False",
    "want_authn_requests_only_with_valid_cert is left at its default (off): outside the property's quantifier",
    "integer clock model; AST cuts 1-4",
]
