"""C16 - the metadata store serves exactly what valid, unexpired metadata declares."""
from harness import fixtures as F
from veriflib.boot import Clock, concrete
from veriflib.runner import Cond
from saml2_tophat import md, samlp, saml, BINDING_HTTP_POST, BINDING_HTTP_REDIRECT, BINDING_SOAP
from saml2_tophat import xmldsig as ds
from saml2_tophat.mdstore import MetadataStore, InMemoryMetaData, MetaDataExtern, UnknownSystemEntity, UnsupportedBinding
from saml2_tophat.s_utils import UnknownSystemEntity as USE2
from saml2_tophat.sigver import SignatureError, pre_signature_part

STORE = MetadataStore(None, None)
A = "urn:verif:idp:a"
B = "urn:verif:sp:b"
UNKNOWN = "urn:verif:nobody"
ENTS = [A, B, UNKNOWN]
BINDS = [BINDING_HTTP_REDIRECT, BINDING_HTTP_POST, BINDING_SOAP]
LOC1 = ["http://a.example.com/sso/redirect", "http://a.example.com/sso/post", "http://a.example.com/sso/soap"]
LOC2 = ["http://a2.example.com/sso/redirect", "http://a2.example.com/sso/post", "http://a2.example.com/sso/soap"]
CERT = ["MIICsigningAAAA", "MIICencryptBBBB", "MIICnouseCCCC", "MIICotherDDDD"]


def _kd(use, text):
    return md.KeyDescriptor(use=use, key_info=ds.KeyInfo(x509_data=[ds.X509Data(x509_certificate=ds.X509Certificate(text=text))]))


def _idp(eid, locs, present, valid_until=None, keys=None):
    sso = [md.SingleSignOnService(binding=BINDS[i], location=locs[i]) for i in range(3) if present[i]]
    return md.EntityDescriptor(entity_id=eid, valid_until=valid_until, idpsso_descriptor=[
        md.IDPSSODescriptor(protocol_support_enumeration=samlp.NAMESPACE, single_sign_on_service=sso,
                            key_descriptor=keys or [])])


def _sp(eid, keys=None, valid_until=None):
    return md.EntityDescriptor(entity_id=eid, valid_until=valid_until, spsso_descriptor=[
        md.SPSSODescriptor(protocol_support_enumeration=samlp.NAMESPACE, key_descriptor=keys or [],
                           assertion_consumer_service=[md.AssertionConsumerService(
                               binding=BINDING_HTTP_POST, location="http://b.example.com/acs", index="1")])])


def lookup(b0: bool, b1: bool, b2: bool, dup: bool, d0: bool, d1: bool, d2: bool, has_vu: bool, vu: int, now: int,
           check_validity: bool, qe: int, qb: int):
    """Two sources.  Source 1 declares IdP A (SSO over a symbolic subset of three bindings, optional
    validUntil vs a symbolic clock).  Source 2 declares SP B and, optionally, a duplicate of A with
    other endpoints.  Every (entity, binding) SSO query must return exactly what is declared by the
    first source that serves the entity unexpired."""
    ck = Clock(now)
    s1 = InMemoryMetaData(None, "", check_validity=check_validity)
    s2 = InMemoryMetaData(None, "", check_validity=check_validity)
    s1.do_entity_descriptor(_idp(A, LOC1, (b0, b1, b2), ck.stamp(1, vu) if has_vu else None))
    s2.do_entity_descriptor(_sp(B))
    if dup:
        s2.do_entity_descriptor(_idp(A, LOC2, (d0, d1, d2)))
    STORE.metadata = {"s1": s1, "s2": s2}
    res = None
    kind = "ok"
    try:
        res = STORE.single_sign_on_service(ENTS[qe], BINDS[qb])
    except UnknownSystemEntity:
        kind = "unknown"
    except UnsupportedBinding:
        kind = "unsupported"
    except Exception as e:
        kind = "exc:" + type(e).__name__
    # ---- reference
    a_live = (not has_vu) | (not check_validity) | (now <= vu)
    p1 = (b0, b1, b2)
    p2 = (d0, d1, d2)
    if qe == 0:
        if a_live and p1[qb]:
            exp = ("ok", LOC1[qb])
        elif dup and p2[qb]:
            exp = ("ok", LOC2[qb])
        elif a_live or dup:
            exp = ("unsupported", None)
        else:
            exp = ("unknown", None)
    elif qe == 1:
        # B is known, but only in the SP role: the statement distinguishes 'unknown entity' from
        # 'known entity lacking the binding' and is silent about 'known entity lacking the role'
        exp = ("unknown-or-unsupported", None)
    else:
        exp = ("unknown", None)
    ok = (kind == exp[0]) or (exp[0] == "unknown-or-unsupported" and kind in ("unknown", "unsupported"))
    if ok and kind == "ok":
        ok = (len(res) == 1) and (res[0]["location"] == exp[1]) and (res[0]["binding"] == BINDS[qb])
    # expired entities are not served at all
    if qe == 0 and (not a_live) and (not dup):
        ok = ok and (A not in STORE.keys())
    return ok, True, "got=%s %r expected=%r" % (kind, res, exp)


def two_descriptors(n_lookups: int, qb: int, second_has: bool, with_binding: bool):
    """An entity with two IDPSSODescriptors that both declare SSO endpoints, looked up several
    times: every lookup returns exactly the declared endpoints (lookups do not alter the store)."""
    Clock(1000)
    n_lookups, qb, second_has, with_binding = concrete(n_lookups), concrete(qb), concrete(second_has), concrete(with_binding)
    d1 = md.IDPSSODescriptor(protocol_support_enumeration=samlp.NAMESPACE,
                             single_sign_on_service=[md.SingleSignOnService(binding=BINDS[0], location=LOC1[0]),
                                                     md.SingleSignOnService(binding=BINDS[1], location=LOC1[1])])
    d2 = md.IDPSSODescriptor(protocol_support_enumeration=samlp.NAMESPACE,
                             single_sign_on_service=[md.SingleSignOnService(binding=BINDS[0], location=LOC2[0])] if second_has else [],
                             single_logout_service=[md.SingleLogoutService(binding=BINDS[2], location=LOC2[2])])
    s1 = InMemoryMetaData(None, "")
    s1.do_entity_descriptor(md.EntityDescriptor(entity_id=A, idpsso_descriptor=[d1, d2]))
    STORE.metadata = {"s1": s1}
    want_all = {BINDS[0]: [LOC1[0]] + ([LOC2[0]] if second_has else []), BINDS[1]: [LOC1[1]]}
    ok = True
    last = None
    for _ in range(n_lookups):
        try:
            if with_binding:
                got = STORE.service(A, "idpsso_descriptor", "single_sign_on_service", BINDS[qb])
                last = [s["location"] for s in got]
                ok = ok and (last == want_all.get(BINDS[qb], []))
            else:
                got = STORE.service(A, "idpsso_descriptor", "single_sign_on_service")
                last = dict((b, [s["location"] for s in v]) for b, v in got.items())
                ok = ok and (last == want_all)
        except UnsupportedBinding:
            last = "unsupported"
            ok = ok and with_binding and (BINDS[qb] not in want_all)
    return ok, True, "last=%r" % (last,)


USES = ["signing", "encryption", None]


def certs(u1: int, u2: int, u3: int, qe: int, quse: int, same_text: bool):
    """certs(entity, 'any', use): exactly the certificates of that entity whose key descriptor
    has the requested use or no use - nothing from another entity or key use."""
    Clock(1000)
    s1 = InMemoryMetaData(None, "")
    s1.do_entity_descriptor(_idp(A, LOC1, (True, False, False), None, [_kd(USES[u1], CERT[0]), _kd(USES[u2], CERT[1])]))
    s1.do_entity_descriptor(_sp(B, [_kd(USES[u3], CERT[0] if same_text else CERT[3])]))
    STORE.metadata = {"s1": s1}
    use = ["signing", "encryption"][quse]
    got = None
    exc = None
    try:
        got = STORE.certs(ENTS[qe], "any", use)
    except Exception as e:
        exc = e
    def want(u):
        return (USES[u] is None) or (USES[u] == use)
    if qe == 0:
        exp = [CERT[0]] * want(u1) + [CERT[1]] * want(u2)
    elif qe == 1:
        exp = [CERT[0] if same_text else CERT[3]] * want(u3)
    else:
        exp = None
    if exp is None:
        ok = got is None or got == []
    else:
        ok = (got is not None) and ([c.replace("\n", "") for c in got] == exp)
    return ok, True, "got=%r expected=%r exc=%r" % (got, exp, exc)


# ---- signed metadata over the 'remote' loader ------------------------------------------------
def _mdtext(signed, entities_wrapper):
    ed = _idp(A, LOC1, (True, True, False))
    if entities_wrapper:
        top = md.EntitiesDescriptor(entity_descriptor=[ed], name="fed", id="id-md1")
    else:
        top = ed
        top.id = "id-md1"
    if signed:
        top.signature = pre_signature_part("id-md1")
    return "%s" % top


MDTEXT = {(s, w): _mdtext(s, w) for s in (False, True) for w in (False, True)}


class _Resp:
    def __init__(self, text):
        self.status_code = 200
        self.content = text


class _Http:
    text = ""

    def send(self, url, **kw):
        return _Resp(_Http.text)


class _Sec:
    outcome = 0      # 0 True, 1 False, 2 raises
    calls = 0

    def verify_signature(self, txt, node_name=None, cert_file=None, **kw):
        _Sec.calls += 1
        if _Sec.outcome == 0:
            return True
        if _Sec.outcome == 1:
            return False
        raise SignatureError("FAIL")


STORE2 = MetadataStore(None, None)
STORE2.http = _Http()
STORE2.security = _Sec()


def signed_md(signed: bool, wrapper: bool, has_cert: bool, outcome: int, twice: bool, no_sec: bool = False):
    """MetadataStore.load('remote', ...) of a document that is signed or not, with or without a
    configured verification certificate, the verification answering True / False / raising."""
    Clock(1000)
    STORE2.metadata = {}
    _Http.text = MDTEXT[(signed, wrapper)]
    _Sec.outcome = outcome
    _Sec.calls = 0
    exc = None
    if no_sec:
        # a source that was configured with a certificate but never handed a security context
        # (what MetadataStore.imp() does for file sources): nothing can be verified
        m = MetaDataExtern(None, "http://md.example.org/fed.xml", None, "cert.pem" if has_cert else "", _Http())
        try:
            m.load()
        except Exception as e:
            exc = e
        STORE2.metadata = {"x": m}
    else:
        try:
            STORE2.load("remote", url="http://md.example.org/fed.xml", cert="cert.pem" if has_cert else "")
        except Exception as e:
            exc = e
    served = None
    try:
        served = STORE2.single_sign_on_service(A, BINDING_HTTP_REDIRECT)
    except Exception:
        served = None
    must_verify = signed & has_cert
    trusted = (not must_verify) | ((outcome == 0) & (not no_sec))
    if trusted:
        ok = (served is not None) and (len(served) == 1) and (served[0]["location"] == LOC1[0])
    else:
        ok = (served is None) and (A not in STORE2.keys())
    if must_verify and not no_sec:
        ok = ok and (_Sec.calls >= 1)
    return ok, True, "served=%r exc=%r calls=%d" % (served, exc, _Sec.calls)


# ---- attribute requirements and entity categories ------------------------------------------------
from saml2_tophat.extension import mdattr                 # noqa: E402
ATTRS = ["urn:oid:2.5.4.42", "urn:oid:2.5.4.4", "urn:oid:0.9.2342.19200300.100.1.3"]
CATS = ["http://refeds.org/category/research-and-scholarship", "http://www.geant.net/uri/dataprotection-code-of-conduct/v1"]


def _sp_req(eid, req_mask, opt_mask, cat_mask, index):
    ras = []
    for i, n in enumerate(ATTRS):
        if (req_mask >> i) & 1:
            ras.append(md.RequestedAttribute(name=n, name_format=saml.NAME_FORMAT_URI, is_required="true"))
        elif (opt_mask >> i) & 1:
            ras.append(md.RequestedAttribute(name=n, name_format=saml.NAME_FORMAT_URI, is_required="false"))
    acs = md.AttributeConsumingService(index=index, service_name=[md.ServiceName(text="svc", lang="en")], requested_attribute=ras)
    ed = md.EntityDescriptor(entity_id=eid, spsso_descriptor=[md.SPSSODescriptor(
        protocol_support_enumeration=samlp.NAMESPACE, attribute_consuming_service=[acs],
        assertion_consumer_service=[md.AssertionConsumerService(binding=BINDING_HTTP_POST, location="http://b.example.com/acs", index="1")])])
    cats = [c for i, c in enumerate(CATS) if (cat_mask >> i) & 1]
    if cats:
        ea = mdattr.EntityAttributes(attribute=[saml.Attribute(
            name="http://macedir.org/entity-category", name_format=saml.NAME_FORMAT_URI,
            attribute_value=[saml.AttributeValue(text=c) for c in cats])])
        ed.extensions = md.Extensions(extension_elements=[saml2_tophat.element_to_extension_element(ea)])
    return ed


import saml2_tophat                                       # noqa: E402


def requirements(req1: int, opt1: int, cat1: int, req2: int, opt2: int, cat2: int, qe: int):
    """attribute_requirement() and entity_categories() return exactly what the queried SP's own
    descriptor declares (two SPs with symbolic declarations), nothing of the other SP's."""
    Clock(1000)
    req1, opt1, cat1, req2, opt2, cat2, qe = [concrete(x) for x in (req1, opt1, cat1, req2, opt2, cat2, qe)]
    s1 = InMemoryMetaData(None, "")
    s1.do_entity_descriptor(_sp_req(B, req1, opt1, cat1, "1"))
    s2 = InMemoryMetaData(None, "")
    s2.do_entity_descriptor(_sp_req("urn:verif:sp:c", req2, opt2, cat2, "1"))
    STORE.metadata = {"s1": s1, "s2": s2}
    eid = [B, "urn:verif:sp:c", UNKNOWN][qe]
    ar = STORE.attribute_requirement(eid)
    try:
        ec = STORE.entity_categories(eid)
    except KeyError:
        ec = None
    if qe == 2:
        return (ar is None) and (ec is None or ec == []), True, "unknown -> %r %r" % (ar, ec)
    rq, op, ct = [(req1, opt1, cat1), (req2, opt2, cat2)][qe]
    want_req = [n for i, n in enumerate(ATTRS) if (rq >> i) & 1]
    want_opt = [n for i, n in enumerate(ATTRS) if not (rq >> i) & 1 and (op >> i) & 1]
    if not want_req and not want_opt:
        # an AttributeConsumingService without RequestedAttribute is not schema-valid; 'declares nothing' may come back as None or as empty lists
        ok = (ar is None) or (ar["required"] == [] and ar["optional"] == [])
    else:
        ok = (ar is not None) and ([a["name"] for a in ar["required"]] == want_req) and ([a["name"] for a in ar["optional"]] == want_opt)
    ok = ok and (sorted(ec or []) == sorted(c for i, c in enumerate(CATS) if (ct >> i) & 1))
    return ok, True, "ar=%r ec=%r" % (ar, ec)


# ---- whole documents through parse(): document-level and entity-level validUntil ---------------
def _doc(doc_vu, ent_vu, wrapper):
    ed = _idp(A, LOC1, (True, False, False), ent_vu)
    if wrapper:
        top = md.EntitiesDescriptor(entity_descriptor=[ed, _sp(B)], name="fed", valid_until=doc_vu)
    else:
        top = ed
    return "%s" % top


_DOC_TOK, _ENT_TOK = "2011-01-01T00:00:00Z", "2012-01-01T00:00:00Z"
VDOCS = {(d, e, w): _doc(_DOC_TOK if d else None, _ENT_TOK if e else None, w) for d in (False, True) for e in (False, True) for w in (False, True)}


def md_document(has_doc_vu: bool, doc_vu: int, has_ent_vu: bool, ent_vu: int, wrapper: bool, now: int):
    """A metadata *document* (EntitiesDescriptor or single EntityDescriptor) really parsed by
    InMemoryMetaData.parse: an entity is served iff neither its own validUntil nor the enclosing
    document's has passed."""
    from veriflib import timemodel
    from veriflib.boot import concrete, REPLAY
    has_doc_vu, has_ent_vu, wrapper = concrete(has_doc_vu), concrete(has_ent_vu), concrete(wrapper)
    if REPLAY:
        text = _doc(timemodel.real_stamp(doc_vu) if has_doc_vu else None, timemodel.real_stamp(ent_vu) if has_ent_vu else None, wrapper)
        timemodel.set_clock(now, None)
    else:
        text = VDOCS[(has_doc_vu, has_ent_vu, wrapper)]
        timemodel.set_clock(now, {_DOC_TOK: doc_vu, _ENT_TOK: ent_vu})
    m = InMemoryMetaData(None, "")
    raised = False
    try:
        m.parse(text)
    except Exception:
        raised = True
    STORE.metadata = {"s1": m}
    served = None
    try:
        served = STORE.single_sign_on_service(A, BINDING_HTTP_REDIRECT)
    except Exception:
        served = None
    doc_live = (not (has_doc_vu and wrapper)) | (now <= doc_vu)
    ent_live = (not has_ent_vu) | (now <= ent_vu)
    if doc_live & ent_live:
        ok = (served is not None) and (len(served) == 1) and (served[0]["location"] == LOC1[0])
    else:
        ok = (served is None) and (A not in STORE.keys())
    if not doc_live:
        ok = ok and (B not in STORE.keys())
    return ok, True, "served=%r raised=%s" % (served, raised)


# ---- configuration -> generated metadata -> store ----------------------------------------------
from saml2_tophat.config import SPConfig          # noqa: E402
from saml2_tophat.metadata import entity_descriptor   # noqa: E402
import copy                                       # noqa: E402

_SPCONFS = {}
for _p in (False, True):
    for _r in (False, True):
        for _e in (False, True):
            c = F.sp_conf(acs_post=F.ACS_POST, acs_redirect=F.ACS_REDIRECT if _r else None, enc=_e)
            if not _p:
                c["service"]["sp"]["endpoints"]["assertion_consumer_service"] = [
                    x for x in c["service"]["sp"]["endpoints"]["assertion_consumer_service"] if x[1] != BINDING_HTTP_POST]
            if c["service"]["sp"]["endpoints"]["assertion_consumer_service"]:
                _SPCONFS[(_p, _r, _e)] = md.entity_descriptor_from_string(
                    entity_descriptor(SPConfig().load(copy.deepcopy(c), metadata_construction=True)).to_string())


def roundtrip(post: bool, redirect: bool, enc: bool, qb: int):
    """Entity descriptor generated from an SP configuration, loaded into the store (object level),
    serves exactly the configured endpoints and keys."""
    Clock(1000)
    if not (post | redirect):
        return True, False, "no endpoint configured"
    ed = _SPCONFS[(post, redirect, enc)]
    s1 = InMemoryMetaData(None, "")
    s1.do_entity_descriptor(ed)
    STORE.metadata = {"s1": s1}
    kind = "ok"
    res = None
    try:
        res = STORE.assertion_consumer_service(F.SP_ID, BINDS[qb])
    except UnsupportedBinding:
        kind = "unsupported"
    except Exception as e:
        kind = "exc:" + type(e).__name__
    conf = {0: F.ACS_REDIRECT if redirect else None, 1: F.ACS_POST if post else None, 2: None}[qb]
    if conf is None:
        ok = kind == "unsupported"
    else:
        ok = (kind == "ok") and ([s["location"] for s in res] == [conf])
    sig = STORE.certs(F.SP_ID, "any", "signing")
    encc = STORE.certs(F.SP_ID, "any", "encryption")
    ok = ok and (len(sig) == 1) and (len(encc) == (2 if enc else 0))
    return ok, True, "kind=%s res=%r sig=%d enc=%d" % (kind, res, len(sig), len(encc))


CONDITIONS = [
    Cond(name="lookup", fn="lookup",
         params=[("b0", "bool"), ("b1", "bool"), ("b2", "bool"), ("dup", "bool"), ("d0", "bool"), ("d1", "bool"), ("d2", "bool"),
                 ("has_vu", "bool"), ("vu", "int"), ("now", "int"), ("check_validity", "bool"), ("qe", "int"), ("qb", "int")],
         pre=["0 <= qe <= 2", "0 <= qb <= 2", "0 < vu <= 8589934592", "0 < now <= 8589934592"],
         partitions={"quick": [{"qe": 0, "qb": b, "dup": d} for b in range(3) for d in (False, True)] + [{"qe": 1, "qb": 0}, {"qe": 2, "qb": 1}],
                     "thorough": [{"qe": e, "qb": b, "dup": d} for e in range(3) for b in range(3) for d in (False, True)]},
         timeout={"quick": 600, "thorough": 1200}, path_timeout=60,
         functions=["mdstore.InMemoryMetaData.do_entity_descriptor", "mdstore.InMemoryMetaData.service", "mdstore.MetadataStore.service",
                    "mdstore.MetadataStore.single_sign_on_service", "mdstore.MetadataStore.keys", "time_util.valid", "saml2_tophat.mdie.to_dict"],
         bounds="2 sources; IdP A with any subset of 3 SSO bindings, optional validUntil vs symbolic clock (both in (0, 2^33]), check_validity on/off; "
                "optional duplicate of A in the second source with any subset of 3 other endpoints; SP B; query entity in {A, B, unknown} x 3 bindings"),
    Cond(name="certs", fn="certs",
         params=[("u1", "int"), ("u2", "int"), ("u3", "int"), ("qe", "int"), ("quse", "int"), ("same_text", "bool")],
         pre=["0 <= u1 <= 2", "0 <= u2 <= 2", "0 <= u3 <= 2", "0 <= qe <= 2", "0 <= quse <= 1"],
         partitions={"quick": [{"qe": e} for e in range(3)]}, timeout={"quick": 600, "thorough": 1200},
         functions=["mdstore.MetaData.certs", "mdstore.MetadataStore.__getitem__", "mdstore.repack_cert"],
         bounds="IdP A with 2 key descriptors and SP B with 1, each use in {signing, encryption, unspecified}; B's certificate equal to / different from A's; "
                "query entity in {A, B, unknown} x use in {signing, encryption}"),
    Cond(name="signed_md", fn="signed_md",
         params=[("signed", "bool"), ("wrapper", "bool"), ("has_cert", "bool"), ("outcome", "int"), ("twice", "bool"), ("no_sec", "bool")],
         pre=["0 <= outcome <= 2"], partitions={"quick": [{"twice": False, "no_sec": False}, {"twice": False, "no_sec": True, "outcome": 0}]}, timeout={"quick": 600, "thorough": 1200}, path_timeout=60,
         functions=["mdstore.MetadataStore.load('remote')", "mdstore.MetaDataExtern.load", "mdstore.InMemoryMetaData.parse_and_check_signature/parse/signed"],
         bounds="document signed/unsigned x EntitiesDescriptor/EntityDescriptor root x verification certificate configured or not x verification answers True / False / raises"),
    Cond(name="two_descriptors", fn="two_descriptors", params=[("n_lookups", "int"), ("qb", "int"), ("second_has", "bool"), ("with_binding", "bool")],
         pre=["1 <= n_lookups <= 3", "0 <= qb <= 2"], partitions={"quick": [{}]}, timeout={"quick": 600, "thorough": 900}, path_timeout=60,
         functions=["mdstore.InMemoryMetaData.service", "mdstore.MetadataStore.service"],
         bounds="one entity with two descriptors of the same role both declaring the queried service; 1-3 consecutive lookups, with and without a binding filter"),
    Cond(name="requirements", fn="requirements",
         params=[("req1", "int"), ("opt1", "int"), ("cat1", "int"), ("req2", "int"), ("opt2", "int"), ("cat2", "int"), ("qe", "int")],
         pre=["0 <= req1 < 8", "0 <= opt1 < 8", "0 <= cat1 < 4", "0 <= req2 < 8", "0 <= opt2 < 8", "0 <= cat2 < 4", "0 <= qe <= 2"],
         partitions={"quick": [{"qe": e, "req2": 5, "opt2": 2, "cat2": 3 if r % 2 else 0, "req1": r, "cat1": (r + e) % 4} for e in range(3) for r in range(8)],
                     "thorough": [{"qe": e, "cat2": c, "req2": 5, "opt2": 2, "req1": r, "cat1": k} for e in range(3) for c in (0, 3) for r in range(8) for k in range(4)]},
         timeout={"quick": 600, "thorough": 1200}, path_timeout=60,
         functions=["mdstore.MetadataStore.attribute_requirement", "mdstore.InMemoryMetaData.attribute_requirement", "mdstore.attribute_requirement",
                    "mdstore.MetadataStore.entity_categories/entity_attributes"],
         bounds="two SPs in two sources, each with any subset of 3 attributes required / optional and any subset of 2 entity categories; query either SP or an unknown entity"),
    Cond(name="md_document", fn="md_document",
         params=[("has_doc_vu", "bool"), ("doc_vu", "int"), ("has_ent_vu", "bool"), ("ent_vu", "int"), ("wrapper", "bool"), ("now", "int")],
         pre=["0 < doc_vu <= 8589934592", "0 < ent_vu <= 8589934592", "0 < now <= 8589934592"],
         partitions={"quick": [{"wrapper": w, "has_doc_vu": d} for w in (False, True) for d in (False, True)]},
         timeout={"quick": 600, "thorough": 1200}, path_timeout=60,
         functions=["mdstore.InMemoryMetaData.parse", "mdstore.InMemoryMetaData.do_entity_descriptor", "validate.valid_instance", "time_util.valid"],
         bounds="EntitiesDescriptor (two entities) or single EntityDescriptor, really parsed; document-level and entity-level validUntil each absent or a symbolic instant vs a symbolic clock in (0, 2^33]"),
    Cond(name="roundtrip", fn="roundtrip", params=[("post", "bool"), ("redirect", "bool"), ("enc", "bool"), ("qb", "int")],
         pre=["0 <= qb <= 2"], partitions={"quick": [{}]}, timeout={"quick": 600, "thorough": 1200}, path_timeout=60,
         functions=["metadata.entity_descriptor + serialise/parse (at import, per configuration)", "mdstore.InMemoryMetaData.do_entity_descriptor",
                    "mdstore.MetadataStore.assertion_consumer_service/certs"],
         bounds="SP configuration with any non-empty subset of {POST, Redirect} ACS endpoints, with / without encryption keypair; query binding in 3"),
]

ASSUMPTIONS = [
    "metadata enters at object level (md.EntityDescriptor instances handed to do_entity_descriptor); XML parsing of metadata files is expat (C) and outside the claim, "
    "except signed_md where concrete documents are really parsed",
    "signed_md: the HTTP fetch and the signature verification are stubs with arbitrary outcome (True / False / raises) - xmlsec1 raises, the pyXMLSecurity backend returns False",
    "integer clock model; AST cuts 1-4",
]
