"""IdP-level fixture: Server from generated SP metadata with a *model* crypto backend:
encrypt_assertion replaces the node selected by the xpath with an opaque token bound to the
recipient certificate; sign_statement returns the statement unchanged (the signature template is
already in place).  The cipher and the signature mathematics are xmlsec1's, outside every claim."""
import re
import xml.etree.ElementTree as ET

from harness import fixtures as F
from saml2_tophat.sigver import CryptoBackend, EncryptError
from saml2_tophat import saml

ENC_NS = "http://www.w3.org/2001/04/xmlenc#"


def _steps(xpath):
    return re.findall(r'local-name\(\)=["\x27]([^"\x27]+)["\x27]', xpath)


class ModelBackend(CryptoBackend):
    def __init__(self):
        CryptoBackend.__init__(self)
        self.encrypted_for = []
        self.signed = []
        self.fail_encrypt = False
        self.vault = {}

    def version(self):
        return "1.2.33"

    def sign_statement(self, statement, node_name, key_file, node_id, id_attr):
        self.signed.append((node_name, node_id))
        if isinstance(statement, bytes):
            return statement.decode("utf-8")
        return "%s" % statement

    def validate_signature(self, *a, **k):
        return True

    def encrypt_assertion(self, statement, enc_key, template, key_type="des-192", node_xpath=None, node_id=None):
        from saml2_tophat.sigver import ASSERT_XPATH, pre_encrypt_assertion
        from saml2_tophat import SamlBase
        if self.fail_encrypt:
            raise EncryptError("model: tool produced no output")
        if isinstance(statement, SamlBase):
            statement = pre_encrypt_assertion(statement)
        text = statement.decode("utf-8") if isinstance(statement, bytes) else "%s" % statement
        root = ET.fromstring(text)
        steps = _steps(node_xpath or ASSERT_XPATH)
        # resolve the path of local names from the root
        def local(t):
            return t.rsplit("}", 1)[-1]
        assert local(root.tag) == steps[0], (root.tag, steps)
        parent, node = None, root
        for name in steps[1:]:
            nxt = [c for c in node if local(c.tag) == name]
            if not nxt:
                raise EncryptError("model: xpath selects nothing")
            parent, node = node, nxt[0]
        idx = list(parent).index(node)
        parent.remove(node)
        ed = ET.Element("{%s}EncryptedData" % ENC_NS, {"Type": ENC_NS + "Element"})
        cd = ET.SubElement(ed, "{%s}CipherData" % ENC_NS)
        cv = ET.SubElement(cd, "{%s}CipherValue" % ENC_NS)
        self.encrypted_for.append(enc_key)
        token = "Q0lQSEVSVEVYVFRPS0VO" + ("%04d" % len(self.vault))
        cv.text = token
        self.vault[token] = node
        parent.insert(idx, ed)
        return ET.tostring(root, encoding="unicode")

    def decrypt(self, enctext, key_file, id_attr):
        """xmlsec1 --decrypt replaces each EncryptedData it can open with its plaintext."""
        root = ET.fromstring(enctext)
        done = 0
        for parent in list(root.iter()):
            for i, ch in enumerate(list(parent)):
                if ch.tag == "{%s}EncryptedData" % ENC_NS:
                    cv = ch.find("{%s}CipherData/{%s}CipherValue" % (ENC_NS, ENC_NS))
                    tok = (cv.text or "").strip() if cv is not None else ""
                    if tok in self.vault:
                        parent.remove(ch)
                        parent.insert(i, self.vault[tok])
                        done += 1
        if not done:
            return ""
        return ET.tostring(root, encoding="unicode")

    def encrypt(self, text, recv_key, template, key_type):
        raise Exception("not used")


class IdPFixture:
    def __init__(self, sp_confs=None, policy=None, extra=None):
        self.server = F.mk_server(sp_confs, policy, extra)
        self.backend = ModelBackend()
        self.server.sec.crypto = self.backend

    def reset(self):
        self.backend.encrypted_for = []
        self.backend.signed = []
        self.backend.fail_encrypt = False
