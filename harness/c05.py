"""C05 - responses are accepted only if addressed to this SP and solicited."""
import re
from harness.common import *
from harness.common import HandOverSec                               # noqa: F401,F403
from veriflib.boot import Clock
from veriflib.runner import Cond
from saml2_tophat import response as R

OTHER_SP = "urn:mace:example.com:saml:other:sp"
FOREIGN = "http://evil.example.org/acs"
IRTS = [REQ_ID, "id-unknown", None]
REQ2 = "id-req2"                      # a second request that is also still outstanding
SCD_IRTS = [REQ_ID, "id-different", None, REQ2]
AUDS = [None, [SP_ID], [OTHER_SP], [OTHER_SP, SP_ID], [" " + SP_ID + "\n"], [SP_ID + "/"]]
AUD_NAMES_ME = [True, True, False, True, True, False]
RECIPS = [ACS, SP_ID, FOREIGN, None, ACS + "/"]
RECIP_MINE = [True, True, False, False, False]
DESTS = [ACS, FOREIGN, None, ACS2, ACS.upper(), ACS + "?x=1"]      # ACS2: own endpoint of another binding
REGEX = r"^http://lingon\.catalogix\.se:8087/$"


def _run(irt, scd_irt, dest, r1, r2, recip, unsol, conv, regex_set, sc2, sc2_irt, sc2_recip, validate=True):
    ck = Clock(1000000)
    t = ck.stamp(1, 1000000)
    auds = [a for a in (AUDS[r1], AUDS[r2]) if a is not None]
    confs = [{"not_on_or_after": ck.stamp(3, 1000600), "in_response_to": SCD_IRTS[scd_irt], "recipient": RECIPS[recip]}]
    if sc2:
        confs.append({"not_on_or_after": ck.stamp(3, 1000600), "in_response_to": SCD_IRTS[sc2_irt],
                      "recipient": RECIPS[sc2_recip]})
    a = mk_assertion(t, {"not_on_or_after": ck.stamp(2, 1000600), "audiences": auds}, None, {}, confirmations=confs)
    resp = mk_response(t, [a], in_response_to=IRTS[irt], destination=dest)
    ar = mk_authn_response(resp, allow_unsolicited=unsol, outstanding={REQ_ID: "/", REQ2: "/other"},
                           conv_info={"remote_addr": "0.0.0.0", "entity_id": SP_ID} if conv else None,
                           regex=REGEX if regex_set else None)
    exc = None
    acc = False
    saved = R.valid_instance
    if not validate:
        # schema validation of a symbolic anyURI goes through urlparse character by character and
        # does not close; it is C13's subject.  Cut for the symbolic-string condition only.
        R.valid_instance = lambda _x: True
    try:
        ar.loads("<concrete/>", False)
        acc = ar.verify() is not None
    except Exception as e:
        exc = e
    finally:
        R.valid_instance = saved
    return acc, exc, ar


def addr(irt: int, scd_irt: int, dest: int, r1: int, r2: int, recip: int,
         unsol: bool, conv: bool, sc2: bool, sc2_irt: int, sc2_recip: int, regex_set: bool):
    """All clauses together over finite catalogues (Destination from the near-miss catalogue)."""
    d = DESTS[dest]
    acc, exc, ar = _run(irt, scd_irt, d, r1, r2, recip, unsol, conv, regex_set, sc2, sc2_irt, sc2_recip)
    solicited = (irt == 0) & (scd_irt != 1) & (scd_irt != 3) & ((not sc2) | ((sc2_irt != 1) & (sc2_irt != 3)))
    if regex_set:
        dest_ok = (d is None) or (re.search(REGEX, d) is not None)
    else:
        dest_ok = (d is None) or (d == ACS)
    aud_ok = AUD_NAMES_ME[r1] & AUD_NAMES_ME[r2]
    # every confirmation here is a valid bearer one, so each must have a Recipient that is mine
    # when conversation information is given
    recip_ok = (not conv) | (RECIP_MINE[recip] & ((not sc2) | RECIP_MINE[sc2_recip]))
    need = (unsol | solicited) & dest_ok & aud_ok & recip_ok
    ok = (not acc) | need
    # liveness: a fully conforming response is accepted and routed to the right caller
    perfect = (irt == 0) & (scd_irt == 0) & ((not sc2) | (sc2_irt == 0)) & dest_ok & aud_ok \
        & RECIP_MINE[recip] & ((not sc2) | RECIP_MINE[sc2_recip])
    ok = ok & ((not perfect) | acc)
    if acc & (irt == 0):
        ok = ok & (ar.came_from == "/")
    return ok, acc | (not need), "accepted=%s exc=%r" % (acc, exc)


def attr_response(r1: int, r2: int, expired: bool, recip: int, conv: bool):
    """Attribute response (answer to an AttributeQuery, synchronous binding): every audience
    restriction present must name the SP; recipient rule under conversation information."""
    from saml2_tophat.response import AttributeResponse
    from veriflib.boot import concrete
    r1, r2, recip = concrete(r1), concrete(r2), concrete(recip)
    ck = Clock(1000000)
    t = ck.stamp(1, 1000000)
    auds = [a for a in (AUDS[r1], AUDS[r2]) if a is not None]
    confs = [{"not_on_or_after": ck.stamp(3, 1000600), "in_response_to": REQ_ID, "recipient": RECIPS[recip]}]
    a = mk_assertion(t, {"not_on_or_after": ck.stamp(2, 999000 if expired else 1000600), "audiences": auds}, None, None, confirmations=confs,
                     attrs=[saml.Attribute(name="uid", attribute_value=[saml.AttributeValue(text="alice")])])
    resp = mk_response(t, [a], in_response_to=REQ_ID, destination=None)
    ar = AttributeResponse(HandOverSec(resp), [], SP_ID, return_addrs=[ACS], timeslack=0, asynchop=False,
                           conv_info={"remote_addr": "0.0.0.0", "entity_id": SP_ID} if conv else None)
    ar.allow_unknown_attributes = True
    acc = False
    exc = None
    try:
        ar.loads("<concrete/>", False)
        acc = ar.verify() is not None and bool(ar.ava)
    except Exception as e:
        exc = e
    need = AUD_NAMES_ME[r1] & AUD_NAMES_ME[r2] & (not expired) & ((not conv) | RECIP_MINE[recip])
    perfect = AUD_NAMES_ME[r1] & AUD_NAMES_ME[r2] & (not expired) & RECIP_MINE[recip]
    ok = ((not acc) | need) & ((not perfect) | acc)
    return ok, acc | (not need), "accepted=%s exc=%r" % (acc, exc)


# ---- two SP clients in one process (client level, really parsed documents) --------------------
import base64 as _b64                                          # noqa: E402
from harness import fixtures as _F                             # noqa: E402
from harness.spfix import StubBackend as _SB                   # noqa: E402
from saml2_tophat import BINDING_HTTP_POST as _POST            # noqa: E402
_SPS = [_F.mk_client(), _F.mk_client(_F.sp_conf(entityid=_F.SP2_ID, acs_post=_F.ACS2_POST, acs_redirect=None))]
_SPIDS = [_F.SP_ID, _F.SP2_ID]
_SPACS = [_F.ACS_POST, _F.ACS2_POST]
for _c in _SPS:
    _c.sec.crypto = _SB()
    _c.sec.crypto.verdict = {}
_CK2 = Clock(1000000)


def _wire(sp, dest_of, recip_of):
    t = _CK2.stamp(1, 1000000)
    nooa = _CK2.stamp(2, 1000600)
    a = mk_assertion(t, {"not_on_or_after": nooa, "audiences": [[_SPIDS[sp]]]},
                     {"not_on_or_after": nooa, "in_response_to": REQ_ID, "recipient": _SPACS[recip_of]}, {}, issuer=_F.IDP_ID,
                     attrs=[saml.Attribute(name="urn:oid:2.5.4.42", name_format=saml.NAME_FORMAT_URI, friendly_name="givenName",
                                           attribute_value=[saml.AttributeValue(text="alice")])])
    r = mk_response(t, [a], destination=_SPACS[dest_of], issuer=_F.IDP_ID)
    return _b64.b64encode(("%s" % r).encode("utf-8")).decode("ascii")


_WIRES = {(sp, d, r): _wire(sp, d, r) for sp in (0, 1) for d in (0, 1) for r in (0, 1)}


def two_sps(first: int, dest_of: int, recip_of: int, conv: bool):
    """Two service providers with different endpoints live in one process.  After the first has
    handled a response of its own, the second accepts a response only if Destination (and, with
    conversation information, Recipient) name *its own* endpoint."""
    from veriflib.boot import concrete
    from veriflib import timemodel
    from saml2_tophat.population import Population
    first, dest_of, recip_of, conv = concrete(first), concrete(dest_of), concrete(recip_of), concrete(conv)
    second = 1 - first
    timemodel.set_clock(1000000, _CK2.tab)
    for c in _SPS:
        c.want_response_signed = False
        c.users = Population()
    ok = True
    try:
        r1 = _SPS[first].parse_authn_request_response(_WIRES[(first, first, first)], _POST, {REQ_ID: "/"})
        ok = r1 is not None and bool(r1.ava)
    except Exception:
        ok = False
    acc = False
    exc = None
    try:
        r2 = _SPS[second].parse_authn_request_response(_WIRES[(second, dest_of, recip_of)], _POST, {REQ_ID: "/"},
                                                      conv_info={"remote_addr": "0.0.0.0", "entity_id": _SPIDS[second]} if conv else None)
        acc = r2 is not None and bool(r2.ava)
    except Exception as e:
        exc = e
    expect = (dest_of == second) and ((not conv) or recip_of == second)
    return ok and (acc == expect), True, "first_ok=%s second=%s expected=%s exc=%r" % (ok, acc, expect, exc)


from harness import c17 as _c17        # noqa: E402  (fixtures must be built at import, outside the trace)


def decrypted(m: int, signed: bool, unsol: bool):
    """The solicitation / audience clauses on an assertion that arrives encrypted (same fixture
    and oracle as C17's SP side: m = 1 audience names another SP, 3 bearer confirmation names
    another request, 6 response answers an unknown request)."""
    from veriflib.boot import concrete
    m = [0, 1, 3, 6][concrete(m)]
    return _c17.sp_side(m, True, signed, True, 0, False, unsol)


def dest_string(has_dest: bool, dest: str, irt: int, unsol: bool):
    """Destination is a symbolic string compared by the real code with the SP's endpoint list."""
    acc, exc, ar = _run(irt, 0, dest if has_dest else None, 1, 0, 0, unsol, True, False, False, 0, 0, validate=False)
    dest_ok = (not has_dest) | (dest == ACS) | (dest == "")
    expect = dest_ok & (unsol | (irt == 0))
    ok = (acc == expect)
    return ok, acc | (not expect), "accepted=%s exc=%r" % (acc, exc)


_P = [("irt", "int"), ("scd_irt", "int"), ("dest", "int"), ("r1", "int"), ("r2", "int"),
      ("recip", "int"), ("unsol", "bool"), ("conv", "bool"), ("sc2", "bool"), ("sc2_irt", "int"), ("sc2_recip", "int"),
      ("regex_set", "bool")]
_PRE = ["0 <= irt < 3", "0 <= scd_irt < 4", "0 <= dest < %d" % len(DESTS), "0 <= r1 < %d" % len(AUDS), "0 <= r2 < %d" % len(AUDS),
        "0 <= recip < %d" % len(RECIPS), "0 <= sc2_irt < 4", "0 <= sc2_recip < %d" % len(RECIPS)]
_NOSC2 = {"sc2": False, "sc2_irt": 0, "sc2_recip": 0}

CONDITIONS = [
    Cond(name="addr", fn="addr", params=_P, pre=_PRE,
         partitions={"quick": [dict(_NOSC2, r1=a, r2=b, dest=d, regex_set=False) for a in range(len(AUDS)) for b in (0, 2) for d in (0, 1, 3)] +
                              [dict(_NOSC2, r1=1, r2=0, dest=d, regex_set=True) for d in range(len(DESTS))] +
                              [{"r1": 1, "r2": 0, "sc2": True, "dest": 0, "regex_set": False, "unsol": u, "conv": c, "scd_irt": i}
                               for u in (False, True) for c in (False, True) for i in range(4)],
                     "thorough": [dict(_NOSC2, r1=a, r2=b, dest=d, regex_set=g) for a in range(len(AUDS)) for b in range(len(AUDS))
                                  for d in range(len(DESTS)) for g in (False, True)] +
                                 [{"r1": a, "r2": 0, "sc2": True, "dest": d, "regex_set": False, "unsol": u, "conv": c}
                                  for a in (1, 2) for d in (0, 1) for u in (False, True) for c in (False, True)]},
         timeout={"quick": 400, "thorough": 900}, path_timeout=60,
         functions=["response.AuthnResponse.loads", "response.AuthnResponse.check_subject_confirmation_in_response_to",
                    "response.StatusResponse._validate_destination", "response.for_me", "response.AuthnResponse.condition_ok",
                    "response.AuthnResponse.get_subject/verify_recipient/_bearer_confirmed/_assertion/verify_attesting_entity"],
         bounds="InResponseTo in {outstanding, unknown, absent}; 1-2 bearer confirmations each with InResponseTo in {same, unknown, absent, another request that is also outstanding} and "
                "Recipient in {ACS, entity id, foreign, absent, near miss}; Destination from a 6-entry catalogue (own, foreign, absent, own endpoint of "
                "another binding, upper-cased, extra query); 0-2 AudienceRestrictions from {[SP],[other],[other,SP],[SP padded with whitespace],[SP+'/']}; "
                "allow_unsolicited; conv_info; destination pattern set/unset (quick: subset of the audience x destination grid)"),
    Cond(name="attr_response", fn="attr_response",
         params=[("r1", "int"), ("r2", "int"), ("expired", "bool"), ("recip", "int"), ("conv", "bool")],
         pre=["0 <= r1 < %d" % len(AUDS), "0 <= r2 < %d" % len(AUDS), "0 <= recip < %d" % len(RECIPS)],
         partitions={"quick": [{"r1": a} for a in range(len(AUDS))]}, timeout={"quick": 600, "thorough": 900}, path_timeout=60,
         functions=["response.AttributeResponse (AuthnResponse.loads/verify with context AttrQuery)", "response.for_me", "response.AuthnResponse.condition_ok/get_subject/verify_recipient"],
         bounds="attribute responses: 0-2 AudienceRestrictions from the 5 shapes, Conditions expired or not, 5 Recipients, conversation information present/absent"),
    Cond(name="decrypted", fn="decrypted", params=[("m", "int"), ("signed", "bool"), ("unsol", "bool")], pre=["0 <= m <= 3"],
         partitions={"quick": [{"m": k} for k in range(4)]}, timeout={"quick": 900, "thorough": 1200}, path_timeout=180,
         functions=["response.AuthnResponse.parse_assertion (decrypt branch)", "response.AuthnResponse.check_subject_confirmation_in_response_to", "response.AuthnResponse._assertion"],
         bounds="encrypted assertion whose content is conforming / addressed to another audience / confirms another request / answers an unknown request; allow_unsolicited on/off"),
    Cond(name="two_sps", fn="two_sps", params=[("first", "int"), ("dest_of", "int"), ("recip_of", "int"), ("conv", "bool")],
         pre=["0 <= first <= 1", "0 <= dest_of <= 1", "0 <= recip_of <= 1"],
         partitions={"quick": [{"first": 0}, {"first": 1}]}, timeout={"quick": 900, "thorough": 1200}, path_timeout=180,
         functions=["client_base.Base.parse_authn_request_response", "client_base.Base.service_urls", "config.Config.endpoint", "entity.Entity._parse_response"],
         bounds="two Saml2Client objects with different ACS endpoints in one process, either one handling a response first; the other one's response addressed "
                "(Destination, Recipient) to either SP's endpoint, with / without conversation information"),
    Cond(name="dest_string", fn="dest_string",
         params=[("has_dest", "bool"), ("dest", "str"), ("irt", "int"), ("unsol", "bool")],
         pre=["0 <= irt < 3", "len(dest) <= 40"],
         partitions={"quick": [{"irt": 0, "unsol": False}, {"irt": 1, "unsol": True}],
                     "thorough": [{"irt": i, "unsol": u} for i in range(3) for u in (False, True)]},
         timeout={"quick": 400, "thorough": 900}, path_timeout=60,
         functions=["response.StatusResponse._validate_destination"],
         bounds="Destination absent or ANY string of <= 40 characters (the SP's ACS URL has 32), everything else conforming"),
]

ASSUMPTIONS = [
    "parsed-object hand-over (stub signature_check): signatures are not the subject",
    "integer clock model with a fixed valid clock; AST cuts 1-4",
    "return_addrs = [ACS] as computed by Base.service_urls for the POST binding (C09/C16 cover the endpoint tables)",
    "dest_string only: schema validation (valid_instance) is stubbed out - urlparse on a symbolic string does not close; C13 covers validation",
    "an empty Destination attribute is treated as absent (the parser never produces one distinct from absent at object level)",
]
