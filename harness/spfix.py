"""Client-level SP fixture: Saml2Client from generated metadata with a stub crypto backend
(xmlsec1 by contract), plus concrete response documents built with the library's own classes."""
import base64

from harness import fixtures as F
from harness.common import mk_assertion, mk_response, REQ_ID
from veriflib.boot import Clock
from saml2_tophat import saml, samlp, BINDING_HTTP_POST
from saml2_tophat import xmlenc as xenc
from saml2_tophat.sigver import CryptoBackend, SignatureError, pre_signature_part
from saml2_tophat.population import Population

NOW = 1000000
RID = "id-r1"
AID = "id-a1"
TOKEN = "Q0lQSEVSVEVYVFRPS0VO"


class StubBackend(CryptoBackend):
    """xmlsec1 by contract: verification verdict per (node id); decrypt returns the prepared
    plaintext when the key matches, "" otherwise (the xmlsec1 backend never *returns* False on a
    bad signature, it raises)."""

    def __init__(self):
        CryptoBackend.__init__(self)
        self.verdict = {}
        self.plain = ""
        self.asked = []
        self.decrypt_calls = 0
        self.good_keys = None       # None: every key decrypts; else list of key-file basenames
        self.garble = 0             # 1: plaintext truncated in the middle, 2: non-XML text

    def version(self):
        return "1.2.33"

    def validate_signature(self, signedtext, cert_file, cert_type, node_name, node_id, id_attr):
        self.asked.append((node_name, node_id))
        if self.verdict.get(node_id, False):
            return True
        raise SignatureError("FAIL")

    def decrypt(self, enctext, key_file, id_attr):
        self.decrypt_calls += 1
        if TOKEN not in enctext:
            return ""
        if self.good_keys is not None and not any(key_file.endswith(k) for k in self.good_keys):
            return ""
        if self.garble == 1:
            return self.plain[:len(self.plain) // 2]
        if self.garble == 2:
            return "decryption produced this, which is not XML"
        return self.plain

    def sign_statement(self, statement, node_name, key_file, node_id, id_attr):
        raise Exception("not used")

    def encrypt_assertion(self, statement, enc_key, template, key_type, node_xpath=None, node_id=None):
        raise Exception("not used")

    def encrypt(self, text, recv_key, template, key_type):
        raise Exception("not used")


def build_docs(clock, attrs=None):
    """Returns dict (resp_signed, ass_signed, encrypted) -> (wire text b64, plaintext-after-decrypt or None)."""
    t = clock.stamp(1, NOW)
    nooa = clock.stamp(2, NOW + 600)
    docs = {}
    attrs = attrs or [saml.Attribute(name="urn:oid:2.5.4.42", name_format=saml.NAME_FORMAT_URI, friendly_name="givenName",
                                     attribute_value=[saml.AttributeValue(text="Alice")])]
    for rs in (False, True):
        for as_ in (False, True):
            def mk(encrypted, plain_inside):
                a = mk_assertion(t, {"not_on_or_after": nooa, "audiences": [[F.SP_ID]]},
                                 {"not_on_or_after": nooa, "in_response_to": REQ_ID, "recipient": F.ACS_POST}, {},
                                 attrs=attrs, aid=AID, issuer=F.IDP_ID)
                if as_:
                    a.signature = pre_signature_part(AID)
                if not encrypted:
                    r = mk_response(t, [a], destination=F.ACS_POST, rid=RID, issuer=F.IDP_ID)
                else:
                    r = mk_response(t, [], destination=F.ACS_POST, rid=RID, issuer=F.IDP_ID)
                    ea = saml.EncryptedAssertion()
                    if plain_inside:
                        ea.add_extension_element(a)
                    else:
                        ea.encrypted_data = xenc.EncryptedData(
                            type="http://www.w3.org/2001/04/xmlenc#Element",
                            cipher_data=xenc.CipherData(cipher_value=xenc.CipherValue(text=TOKEN)))
                    r.encrypted_assertion = [ea]
                if rs:
                    r.signature = pre_signature_part(RID)
                return "%s" % r
            docs[(rs, as_, False)] = (mk(False, False), None)
            docs[(rs, as_, True)] = (mk(True, False), mk(True, True))
    return docs


def b64(s):
    return base64.b64encode(s.encode("utf-8")).decode("ascii")


class SPFixture:
    def __init__(self, spc=None):
        self.client = F.mk_client(spc)
        self.backend = StubBackend()
        self.client.sec.crypto = self.backend
        self.clock = Clock(NOW)
        self.docs = build_docs(self.clock)
        self.wire = {k: (b64(v[0]), v[1]) for k, v in self.docs.items()}

    def parse(self, key, want_resp, want_ass, want_either, resp_ok, ass_ok, can_decrypt=True,
              allow_unsolicited=False, good_keys=None, garble=0):
        c = self.client
        b = self.backend
        from veriflib import timemodel
        timemodel.set_clock(NOW, self.clock.tab)
        c.want_response_signed = want_resp
        c.want_assertions_signed = want_ass
        c.want_assertions_or_response_signed = want_either
        c.allow_unsolicited = allow_unsolicited
        c.users = Population()
        b.verdict = {RID: resp_ok, AID: ass_ok}
        b.asked = []
        b.decrypt_calls = 0
        b.good_keys = good_keys
        b.garble = garble
        wire, plain = self.wire[key]
        b.plain = plain if (plain is not None and can_decrypt) else ""
        exc = None
        resp = None
        try:
            resp = c.parse_authn_request_response(wire, BINDING_HTTP_POST, {REQ_ID: "/"})
        except Exception as e:
            exc = e
        return resp, exc
