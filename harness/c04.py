"""C04 - assertions are honoured only inside their validity windows."""
from harness.common import *                               # noqa: F401,F403
from veriflib.boot import Clock, concrete
from veriflib.runner import Cond

DAY = 86400
YEARS10 = 315360000
BIG = 1 << 33


def _accepts(ar):
    """Run loads+verify; returns (accepted, exception or None)."""
    try:
        ar.loads("<concrete/>", False)
        r = ar.verify()
    except Exception as e:
        return False, e
    return (r is not None), None


def flow(now: int, slack: int, ii: int, c_nb: int, c_nooa: int, s_nb: int, s_nooa: int, sess: int,
         has_c_nb: bool, has_c_nooa: bool, has_s_nb: bool, has_sess: bool, has_cond: bool,
         spelling: int = 0, sc2: bool = False, tz: int = 0):
    """AuthnResponse.loads + verify + session_info on a handed-over Response object whose seven
    instants are symbolic integers.  Safety + liveness + session expiry."""
    ck = Clock(now, tz)
    t_ii = ck.stamp(1, ii, spelling)
    cond = None
    if has_cond:
        cond = {"not_before": ck.stamp(2, c_nb, spelling) if has_c_nb else None,
                "not_on_or_after": ck.stamp(3, c_nooa, spelling) if has_c_nooa else None,
                "audiences": [[SP_ID]]}
    scd = {"not_before": ck.stamp(4, s_nb, spelling) if has_s_nb else None,
           "not_on_or_after": ck.stamp(5, s_nooa, spelling),
           "in_response_to": REQ_ID, "recipient": ACS}
    authn = {"session_not_on_or_after": ck.stamp(6, sess, spelling) if has_sess else None}
    confs = [scd]
    if sc2:
        # a second bearer confirmation with a window that is certainly open: it must not rescue an expired first one
        confs.append({"not_on_or_after": ck.stamp(8, now + slack + 1000), "in_response_to": REQ_ID, "recipient": ACS})
    a = mk_assertion(t_ii, cond, None, authn, confirmations=confs)
    resp = mk_response(t_ii, [a])
    ar = mk_authn_response(resp, timeslack=slack)
    acc, exc = _accepts(ar)
    p_c_nb = has_cond & has_c_nb
    p_c_nooa = has_cond & has_c_nooa
    # --- safety: accepted => every present bound respected (ties unspecified => non-strict)
    safe = ((not p_c_nooa) | (now <= c_nooa + slack)) \
        & ((not p_c_nb) | (c_nb <= now + slack)) \
        & ((not (p_c_nb & p_c_nooa)) | (c_nb <= c_nooa)) \
        & (now <= s_nooa + slack) \
        & ((not has_s_nb) | (s_nb <= now + slack)) \
        & ((not has_s_nb) | (s_nb <= s_nooa)) \
        & ((not has_sess) | (now <= sess + slack)) \
        & (now - ii <= DAY + slack) & (ii - now <= DAY + slack)
    # --- liveness on profile shapes (bearer data has NotOnOrAfter and no NotBefore)
    roomy = ((not p_c_nooa) | (now + slack < c_nooa)) \
        & ((not p_c_nb) | (c_nb + slack < now)) \
        & ((not (p_c_nb & p_c_nooa)) | (c_nb < c_nooa)) \
        & (now + slack < s_nooa) \
        & ((not has_sess) | (now + slack < sess)) \
        & (now - ii < DAY) & (ii - now < DAY) & (not has_s_nb)
    ok = ((not acc) | safe) & ((not roomy) | acc)
    if acc:
        want = sess if has_sess else (c_nooa if p_c_nooa else 0)
        got = ar.session_info()["not_on_or_after"]
        ok = ok & (got == want)
    return ok, acc, "accepted=%s exc=%r" % (acc, exc)


def later(now1: int, now2: int, nooa: int, slack: int, which: int):
    """The same response presented twice in one process, the clock having advanced in between:
    the second decision depends on the second instant only."""
    which = concrete(which)
    ck = Clock(now1)
    t = ck.stamp(1, now1)
    far = ck.stamp(9, now2 + slack + 1000)
    near = ck.stamp(2, nooa)
    cond = {"not_on_or_after": near if which == 0 else far, "audiences": [[SP_ID]]}
    scd = {"not_on_or_after": near if which == 1 else far, "in_response_to": REQ_ID, "recipient": ACS}
    authn = {"session_not_on_or_after": near if which == 2 else far}
    def once():
        a = mk_assertion(t, cond, scd, authn)
        ar = mk_authn_response(mk_response(t, [a]), timeslack=slack)
        return _accepts(ar)[0]
    acc1 = once()
    from veriflib import timemodel
    timemodel.ENV["now"] = now2
    acc2 = once()
    ok = ((not acc1) | (now1 <= nooa + slack)) & ((not acc2) | (now2 <= nooa + slack)) \
        & ((not (now1 + slack < nooa)) | acc1) & ((not (now2 + slack < nooa)) | acc2)
    return ok, acc1 & (not acc2), "first=%s second=%s" % (acc1, acc2)


def kernel(now: int, slack: int, nb: int, nooa: int, has_nb: bool, has_nooa: bool):
    """condition_ok alone (validate_on_or_after / validate_before / later_than)."""
    ck = Clock(now)
    cond = {"not_before": ck.stamp(2, nb) if has_nb else None,
            "not_on_or_after": ck.stamp(3, nooa) if has_nooa else None, "audiences": [[SP_ID]]}
    a = mk_assertion(ck.stamp(1, now), cond, None, None)
    ar = mk_authn_response(None, timeslack=slack)
    ar.assertion = a
    try:
        acc = bool(ar.condition_ok())
    except Exception:
        acc = False
    safe = ((not has_nooa) | (now <= nooa + slack)) & ((not has_nb) | (nb <= now + slack)) \
        & ((not (has_nb & has_nooa)) | (nb <= nooa))
    roomy = ((not has_nooa) | (now + slack < nooa)) & ((not has_nb) | (nb + slack < now)) \
        & ((not (has_nb & has_nooa)) | (nb < nooa))
    ok = ((not acc) | safe) & ((not roomy) | acc)
    if acc & has_nooa:
        ok = ok & (ar.not_on_or_after == nooa)
    return ok, acc, "accepted=%s" % acc


_RANGE = ["-12 <= tz <= 14", "0 <= slack <= %d" % YEARS10] + ["0 < %s <= %d" % (v, BIG) for v in
                                           ("now", "ii", "c_nb", "c_nooa", "s_nb", "s_nooa", "sess")]
_FLOW_PARAMS = [("now", "int"), ("slack", "int"), ("ii", "int"), ("c_nb", "int"), ("c_nooa", "int"),
                ("s_nb", "int"), ("s_nooa", "int"), ("sess", "int"), ("has_c_nb", "bool"),
                ("has_c_nooa", "bool"), ("has_s_nb", "bool"), ("has_sess", "bool"), ("has_cond", "bool"),
                ("spelling", "int"), ("sc2", "bool"), ("tz", "int")]
_BOOLS4 = [{"has_cond": hc, "has_s_nb": sn, "spelling": 0, "sc2": hc != sn} for hc in (False, True) for sn in (False, True)]

CONDITIONS = [
    Cond(name="kernel", fn="kernel",
         params=[("now", "int"), ("slack", "int"), ("nb", "int"), ("nooa", "int"), ("has_nb", "bool"), ("has_nooa", "bool")],
         pre=["0 <= slack <= %d" % YEARS10, "0 < now <= %d" % BIG, "0 < nb <= %d" % BIG, "0 < nooa <= %d" % BIG],
         partitions={"quick": [{}]}, timeout={"quick": 120, "thorough": 300},
         functions=["response.AuthnResponse.condition_ok", "validate.validate_on_or_after", "validate.validate_before",
                    "time_util.later_than", "time_util.str_to_time", "time_util.utc_now", "response.for_me"],
         bounds="now, NotBefore, NotOnOrAfter in (0, 2^33], slack in [0, 10 years], presence of each bound symbolic; canonical spelling"),
    Cond(name="flow", fn="flow", params=_FLOW_PARAMS, pre=_RANGE,
         partitions={"quick": [dict(p, has_sess=hs) for p in _BOOLS4 for hs in (False, True)],
                     "thorough": [dict(p, spelling=s, has_sess=hs) for p in _BOOLS4 for s in (0, 1, 2) for hs in (False, True)]},
         timeout={"quick": 420, "thorough": 1500}, path_timeout=120,
         functions=["response.AuthnResponse.loads", "response.StatusResponse._loads/_postamble/_verify/issue_instant_ok",
                    "response.AuthnResponse.verify/parse_assertion/_assertion/authn_statement_ok/condition_ok/get_subject/_bearer_confirmed/session_info",
                    "validate.valid_instance", "validate.validate_on_or_after", "validate.validate_before",
                    "time_util.later_than/str_to_time/shift_time/time_in_a_while/time_a_while_ago"],
         bounds="seven instants (now, IssueInstant, Conditions NB/NOOA, bearer NB/NOOA, SessionNOOA) in (0, 2^33], slack in [0, 10 years], "
                "presence of each optional bound symbolic; one assertion, one bearer confirmation plus optionally a second one with an open window; process time zone -12..+14 h; quick: canonical spelling, "
                "thorough: also fractional and Z-less spellings (resolved by the real fallback regex)"),
]

CONDITIONS.append(
    Cond(name="later", fn="later", params=[("now1", "int"), ("now2", "int"), ("nooa", "int"), ("slack", "int"), ("which", "int")],
         pre=["0 < now1 <= now2", "now2 <= now1 + 86000", "0 < nooa <= %d" % BIG, "now2 <= %d" % BIG, "0 <= slack <= 1000", "0 <= which <= 2"],
         partitions={"quick": [{"which": w} for w in range(3)] +
                              # one fully concrete history per bound as well: a memo keyed on symbolic values makes CrossHair
                              # runs non-deterministic (inconclusive) rather than refuted
                              [{"which": w, "now1": 1000, "now2": 2000, "nooa": 1500, "slack": 0} for w in range(3)]},
         timeout={"quick": 600, "thorough": 1200}, path_timeout=120,
         functions=["response.AuthnResponse.loads/verify (twice in one process)", "validate.validate_on_or_after"],
         bounds="two presentations of one response at symbolic instants now1 <= now2 (within a day), the bound under test being the Conditions, bearer or session NotOnOrAfter"))

ASSUMPTIONS = [
    "clock/time conversion replaced by the integer model (veriflib/timemodel.py): strptime/timegm/gmtime/strftime are a monotone bijection timestamps<->epoch seconds at 1 s resolution",
    "parsed-object hand-over: the Response object is given to StatusResponse._loads by a stub signature_check (expat is C)",
    "AST cuts 1-4 of veriflib/cutloader.py (log calls dropped, exception message formatting made constant)",
    "sub-second behaviour and instants exactly equal to a bound are outside the claim (oracle is non-strict at ties)",
    "slack > 10 years and instants > 2^33 are outside the claim (timedelta overflow)",
]
