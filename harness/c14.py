"""C14 - binding encoders and decoders are exact inverses and inject nothing.

Symbolic strings do not close through html.escape / urlencode / str.replace chains (measured: the
real http_form_post_message alone needs 20 s at 2 characters, any string oracle on top never
closed in 600 s).  The strings are therefore assembled from *symbolic indices* into alphabets that
contain every character the encoders treat specially plus representatives of the other classes;
per path the text is concrete, runs through the real encoder, an independent standard reader
(html.parser / urllib.parse / ElementTree) and the real decoder."""
import base64
import xml.etree.ElementTree as ET
from html.parser import HTMLParser
from urllib.parse import parse_qs, urlsplit

from harness import fixtures as F
from veriflib.runner import Cond
from veriflib.boot import concrete, untraced
from saml2_tophat import pack, soap as soapmod, BINDING_HTTP_POST, BINDING_HTTP_REDIRECT, BINDING_SOAP
from saml2_tophat.entity import Entity
from saml2_tophat.s_utils import decode_base64_and_inflate

CLIENT = F.mk_client()
# every character html.escape / percent-encoding / the SOAP splice treat specially + representatives
ALPH = ["", "a", "&", "<", ">", '"', "'", "=", "%", "+", " ", "\n", "#", "?", ";", "/", "é", " ", "\U0001F600", "]]>", "\\"]
HOSTILE = ["&Signature=x", "a=b&SAMLRequest=evil", "%26RelayState%3Dz", "\"/><input name=\"x\" value=\"", "&amp;lt;", "</form>", "x" * 80]
NA = len(ALPH)
MSGS = [
    "<?xml version='1.0' encoding='UTF-8'?>\n<ns0:AuthnRequest xmlns:ns0=\"urn:oasis:names:tc:SAML:2.0:protocol\" ID=\"id-1\" Version=\"2.0\"/>",
    "<ns0:Response xmlns:ns0=\"urn:oasis:names:tc:SAML:2.0:protocol\" ID=\"id-2\" Version=\"2.0\"><a x=\"1 &amp; 2\">téxt &lt;b&gt;\nline2</a></ns0:Response>",
    "plain text, not XML at all: é &<>\"'",
    # long messages (many attributes, an embedded certificate chain): just over 64 KiB of repetitive text (text that does not compress costs ~2 min per path in the traced urllib quoting loop: outside the bound)
    "<ns0:Response xmlns:ns0=\"urn:oasis:names:tc:SAML:2.0:protocol\" ID=\"id-3\"><a>" + "0123456789abcdef" * 4100 + "</a></ns0:Response>",
]
DESTS = ["https://idp.example.com/sso", "https://idp.example.com/sso?tenant=a&x=1"]


def _s(i, j, k, h):
    i, j, k, h = concrete(i), concrete(j), concrete(k), concrete(h)
    if h > 0:
        return HOSTILE[h - 1]
    return ALPH[i] + ALPH[j] + ALPH[k]


class _Form(HTMLParser):
    def __init__(self):
        HTMLParser.__init__(self, convert_charrefs=True)
        self.inputs = []
        self.forms = []

    def handle_starttag(self, tag, attrs):
        d = dict(attrs)
        if tag == "input":
            self.inputs.append((d.get("type"), d.get("name"), d.get("value")))
        if tag == "form":
            self.forms.append(d)

    handle_startendtag = handle_starttag


def form_post(i: int, j: int, k: int, h: int, m: int, response: bool, via_entity: bool):
    """POST form: a standards-conforming HTML parser recovers exactly two hidden fields (one when
    RelayState is empty) whose values are the base64 message and the RelayState, whatever the
    RelayState contains; the real decoder returns the original message bytes."""
    rs = _s(i, j, k, h)
    msg = MSGS[concrete(m)]
    response, via_entity = concrete(response), concrete(via_entity)
    typ = "SAMLResponse" if response else "SAMLRequest"
    dest = DESTS[0]
    if via_entity:
        info = CLIENT.apply_binding(BINDING_HTTP_POST, msg, dest, rs, response=response)
        ok = (info["url"] == dest) and (info["method"] == "POST")
    else:
        info = pack.http_form_post_message(msg, dest, rs, typ)
        ok = True
    data = info["data"]
    with untraced():
        p = _Form()
        p.feed(data)
        p.close()
    hidden = [(n, v) for (t, n, v) in p.inputs if t == "hidden"]
    b64 = base64.b64encode(msg.encode("utf-8")).decode("ascii")
    expect = [(typ, b64)] + ([("RelayState", rs)] if rs != "" else [])
    ok = ok and (hidden == expect) and (len(p.forms) == 1) and (p.forms[0].get("action") == dest)
    # HTML parsers normalise CR/LF inside attribute values only on form submission; the parser API returns them raw
    back = Entity.unravel(hidden[0][1], BINDING_HTTP_POST) if hidden else None
    ok = ok and (back == msg.encode("utf-8"))
    return ok, True, "hidden=%r" % (hidden,)


class _Signer:
    def __init__(self):
        self.signed = None

    def sign(self, msg, key=None):
        self.signed = msg
        return b"SIGNATURE"


SIGALG = "http://www.w3.org/2001/04/xmldsig-more#rsa-sha256"


def redirect(i: int, j: int, k: int, h: int, m: int, dq: int, response: bool, signed: bool):
    """Redirect URL: an independent URL reader (urllib.parse) finds the destination's own query
    untouched and exactly the parameters put in, each once, with the original values; the real
    decoder inflates the message back byte-identically; the signed octet string is the spec-ordered
    prefix of the query."""
    rs = _s(i, j, k, h)
    msg = MSGS[concrete(m)]
    response, signed, dq = concrete(response), concrete(signed), concrete(dq)
    typ = "SAMLResponse" if response else "SAMLRequest"
    dest = DESTS[dq]
    signer = _Signer() if signed else None
    info = pack.http_redirect_message(msg, dest, rs, typ, SIGALG if signed else "", signer)
    loc = dict(info["headers"])["Location"]
    ok = loc.startswith(dest + ("&" if dq else "?"))
    with untraced():
        q = parse_qs(urlsplit(loc).query, keep_blank_values=True, strict_parsing=True)
    own = {"tenant": ["a"], "x": ["1"]} if dq else {}
    exp_keys = set(own) | {typ} | ({"RelayState"} if rs != "" else set()) | ({"SigAlg", "Signature"} if signed else set())
    ok = ok and (set(q) == exp_keys) and all(len(v) == 1 for v in q.values())
    for kk, vv in own.items():
        ok = ok and (q.get(kk) == vv)
    if rs != "":
        ok = ok and (q.get("RelayState") == [rs])
    ok = ok and (urlsplit(loc).fragment == "")
    back = Entity.unravel(q[typ][0], BINDING_HTTP_REDIRECT) if typ in q else None
    ok = ok and (back == msg.encode("utf-8"))
    if signed:
        ok = ok and (q.get("SigAlg") == [SIGALG]) and (q.get("Signature") == [base64.b64encode(b"SIGNATURE").decode("ascii")])
        # what was signed is exactly the leading typ[&RelayState]&SigAlg part of the emitted query
        added = loc[len(dest) + 1:]
        ok = ok and added.startswith(signer.signed.decode("ascii") + "&Signature=")
        with untraced():
            sq = parse_qs(signer.signed.decode("ascii"), keep_blank_values=True, strict_parsing=True)
        ok = ok and (list(sq) == [typ] + (["RelayState"] if rs != "" else []) + ["SigAlg"])
    return ok, True, "loc=%r" % loc


DECLS = ["", "<?xml version='1.0' encoding='UTF-8'?>", '<?xml version="1.0" encoding="UTF-8"?>', "<?XML version='1.0'?>"]
SEPS = ["", "\n", " ", "\r\n", "\n\n", "\t"]
TXT = ["", "a", "\n", " x ", "l1\nl2", "&amp;", "&lt;b&gt;", "é", "'\"", "]]&gt;", "t\r\nu", "CORP\\user1", "EXAMPLE\\north", "a\\\\b", "\\g&lt;0&gt;"]
SAMLP = "urn:oasis:names:tc:SAML:2.0:protocol"


def _canon(e):
    return (e.tag, dict(e.attrib), e.text or "", [(_canon(c), c.tail or "") for c in e])


def soap(decl: int, sep: int, t1: int, t2: int, tail_nl: bool, via_entity: bool):
    """String message spliced into a SOAP envelope and unpacked again: an independent XML parser
    finds exactly one Body child that is element-identical (tag, attributes, text incl. line
    breaks, children) to the message; the real decoder agrees."""
    decl, sep, t1, t2, tail_nl, via_entity = [concrete(x) for x in (decl, sep, t1, t2, tail_nl, via_entity)]
    core = "<ns0:Response xmlns:ns0=\"%s\" ID=\"i\" a=\"%s\"><b>%s</b>%s</ns0:Response>" % (SAMLP, "v", TXT[t1], TXT[t2])
    thingy = (DECLS[decl] + SEPS[sep] if decl else "") + core + ("\n" if tail_nl else "")
    if via_entity:
        out = CLIENT.apply_binding(BINDING_SOAP, thingy, "http://x/")["data"]
    else:
        out = pack.make_soap_enveloped_saml_thingy(thingy)
    if isinstance(out, bytes):
        out = out.decode("utf-8")
    with untraced():
        want = _canon(ET.fromstring(core))
        env = ET.fromstring(out)
        bodies = [c for c in env if c.tag == "{%s}Body" % pack.NAMESPACE]
        ok = (env.tag == "{%s}Envelope" % pack.NAMESPACE) and (len(bodies) == 1) and (len(bodies[0]) == 1)
        ok = ok and (_canon(bodies[0][0]) == want)
    back = soapmod.parse_soap_enveloped_saml_thingy(out, ["{%s}Response" % SAMLP])
    back2 = Entity.unravel(out, BINDING_SOAP, "response")
    with untraced():
        ok = ok and (_canon(ET.fromstring(back)) == want) and (_canon(ET.fromstring(back2)) == want)
    return ok, True, "out=%r" % out[-160:]


CONDITIONS = [
    Cond(name="form_post", fn="form_post",
         params=[("i", "int"), ("j", "int"), ("k", "int"), ("h", "int"), ("m", "int"), ("response", "bool"), ("via_entity", "bool")],
         pre=["0 <= i < %d" % NA, "0 <= j < %d" % NA, "0 <= k < %d" % NA, "0 <= h <= %d" % len(HOSTILE), "0 <= m < 3"],
         partitions={"quick": [{"i": a, "h": 0, "k": 0, "m": a % 3, "response": a % 2 == 0, "via_entity": a % 3 == 0} for a in range(NA)] +
                              [{"i": 0, "j": 0, "k": 0, "h": x} for x in range(1, len(HOSTILE) + 1)],
                     "thorough": [{"i": a, "j": b, "k": (a + b) % NA, "h": 0, "via_entity": (a + b) % 2 == 0} for a in range(NA) for b in range(NA)] +
                                 [{"i": 0, "j": 0, "k": 0, "h": x} for x in range(1, len(HOSTILE) + 1)]},
         timeout={"quick": 600, "thorough": 2400}, path_timeout=60,
         functions=["pack.http_form_post_message", "entity.Entity.apply_binding (POST)", "httpbase.HTTPBase.use_http_form_post", "entity.Entity.unravel (POST)"],
         bounds="RelayState = concatenation of 2 (quick) / 3 (thorough) symbols from a %d-symbol alphabet (every HTML/URL-significant character, whitespace, non-ASCII, astral, ']]>') "
                "or one of %d hostile strings; 3 messages (library XML, XML with escapes and line breaks, non-XML Unicode text); request/response; via pack and via Entity.apply_binding"
                % (NA, len(HOSTILE))),
    Cond(name="redirect", fn="redirect",
         params=[("i", "int"), ("j", "int"), ("k", "int"), ("h", "int"), ("m", "int"), ("dq", "int"), ("response", "bool"), ("signed", "bool")],
         pre=["0 <= i < %d" % NA, "0 <= j < %d" % NA, "0 <= k < %d" % NA, "0 <= h <= %d" % len(HOSTILE), "0 <= m < %d" % len(MSGS), "0 <= dq <= 1"],
         partitions={"quick": [{"i": a, "h": 0, "k": 0, "m": (a + 1) % 3, "dq": a % 2, "signed": (a // 2) % 2 == 0, "response": a % 3 == 0} for a in range(NA)] +
                              [{"i": 0, "j": 0, "k": 0, "h": x, "m": 0} for x in range(1, len(HOSTILE) + 1)] +
                              [{"i": 0, "j": 0, "k": 0, "h": 0, "m": 3}, {"i": 1, "j": 0, "k": 0, "h": 0, "m": 3, "dq": 1}],
                     "thorough": [{"i": a, "j": b, "k": (a + 2 * b) % NA, "h": 0, "signed": (a + b) % 2 == 0, "dq": a % 2} for a in range(NA) for b in range(NA)] +
                                 [{"i": 0, "j": 0, "k": 0, "h": x} for x in range(1, len(HOSTILE) + 1)]},
         timeout={"quick": 600, "thorough": 2400}, path_timeout=60,
         functions=["pack.http_redirect_message", "s_utils.deflate_and_base64_encode", "s_utils.decode_base64_and_inflate", "entity.Entity.unravel (Redirect)"],
         bounds="RelayState as for form_post; destination with / without an existing query; request / response; signed / unsigned (recording signer); %d messages incl. one just over 64 KiB (compressible)" % len(MSGS)),
    Cond(name="soap", fn="soap",
         params=[("decl", "int"), ("sep", "int"), ("t1", "int"), ("t2", "int"), ("tail_nl", "bool"), ("via_entity", "bool")],
         pre=["0 <= decl < %d" % len(DECLS), "0 <= sep < %d" % len(SEPS), "0 <= t1 < %d" % len(TXT), "0 <= t2 < %d" % len(TXT)],
         partitions={"quick": [{"decl": d, "sep": s, "tail_nl": (d + s) % 2 == 0, "via_entity": s % 3 == 0, "t2": (d * 3 + s) % len(TXT)}
                               for d in range(len(DECLS)) for s in range(len(SEPS)) if d or s == 0],
                     "thorough": [{"decl": d, "sep": s, "tail_nl": t, "via_entity": v} for d in range(len(DECLS)) for s in range(len(SEPS)) if d or s == 0
                                  for t in (False, True) for v in (False, True)]},
         timeout={"quick": 600, "thorough": 1200}, path_timeout=60,
         functions=["pack.make_soap_enveloped_saml_thingy (string input)", "entity.Entity.apply_binding (SOAP)", "soap.parse_soap_enveloped_saml_thingy",
                    "entity.Entity.unravel (SOAP)"],
         bounds="message = optional XML declaration (4 spellings) + separator from {none, LF, space, CRLF, LFLF, TAB} + a Response element whose child text and mixed text "
                "come from a 15-entry catalogue (empty, line breaks, escapes, non-ASCII, quotes, backslash sequences) + optional trailing newline; via pack and via Entity.apply_binding"),
]

ASSUMPTIONS = [
    "strings are built from symbolic indices into finite alphabets/catalogues (listed in bounds); arbitrary symbolic strings do not close through these encoders",
    "independent readers are the standard library's html.parser, urllib.parse and xml.etree; the stdlib's own percent-/entity-encoding is trusted",
    "PAOS and artifact bindings are not covered; SOAP with header parts / SamlBase input (ElementTree path) not covered",
    "AST cuts 1-4",
]
