"""Shared fixtures: object builders for the parsed-object hand-over cut (DESIGN.md section 2)."""
from veriflib import boot
boot.install()

from saml2_tophat import saml, samlp                      # noqa: E402
from saml2_tophat.response import AuthnResponse            # noqa: E402
from saml2_tophat.saml import SCM_BEARER                    # noqa: E402

SP_ID = "urn:mace:example.com:saml:roland:sp"
IDP_ID = "urn:mace:example.com:saml:roland:idp"
ACS = "http://lingon.catalogix.se:8087/"
ACS2 = "http://lingon.catalogix.se:8087/redirect"
REQ_ID = "id-req1"
AC_PASSWORD = "urn:oasis:names:tc:SAML:2.0:ac:classes:Password"


class HandOverSec:
    """Parsed object handed straight to StatusResponse._loads (expat is C: symbolic text cannot
    pass through it).  Signature checking is not the subject where this is used."""

    def __init__(self, obj=None):
        self.obj = obj
        self.checked = []

    def correctly_signed_response(self, xml, **kw):
        return self.obj

    def __getattr__(self, name):
        if name.startswith("correctly_signed_"):
            return lambda xml, **kw: self.obj
        raise AttributeError(name)

    def check_signature(self, item, *a, **kw):
        self.checked.append(item)
        return item

    def decrypt(self, *a, **kw):
        raise Exception("no decryption in this harness")


def mk_assertion(issue_instant, cond=None, scd=None, authn=None, subject_extra=None, aid="id-a1",
                 attrs=None, name_id_text="subject-1", issuer=IDP_ID, confirmations=None):
    """cond: dict(not_before, not_on_or_after, audiences=[[...],...]) or None
       scd:  dict(not_before, not_on_or_after, in_response_to, recipient, address) or None"""
    a = saml.Assertion(id=aid, version="2.0", issue_instant=issue_instant,
                       issuer=saml.Issuer(text=issuer))
    if confirmations is None:
        confirmations = [scd] if scd is not None else []
    scs = []
    for d in confirmations:
        scs.append(saml.SubjectConfirmation(
            method=d.get("method", SCM_BEARER),
            subject_confirmation_data=saml.SubjectConfirmationData(
                not_before=d.get("not_before"), not_on_or_after=d.get("not_on_or_after"),
                in_response_to=d.get("in_response_to"), recipient=d.get("recipient"),
                address=d.get("address"))))
    a.subject = saml.Subject(name_id=saml.NameID(text=name_id_text, format=saml.NAMEID_FORMAT_TRANSIENT),
                             subject_confirmation=scs)
    if cond is not None:
        c = saml.Conditions(not_before=cond.get("not_before"), not_on_or_after=cond.get("not_on_or_after"))
        ars = []
        for auds in cond.get("audiences", []):
            ars.append(saml.AudienceRestriction(audience=[saml.Audience(text=t) for t in auds]))
        c.audience_restriction = ars
        a.conditions = c
    if authn is not None:
        a.authn_statement = [saml.AuthnStatement(
            authn_instant=issue_instant, session_index="s1",
            session_not_on_or_after=authn.get("session_not_on_or_after"),
            authn_context=saml.AuthnContext(
                authn_context_class_ref=saml.AuthnContextClassRef(text=authn.get("class_ref", AC_PASSWORD))))]
    if attrs:
        a.attribute_statement = [saml.AttributeStatement(attribute=attrs)]
    return a


def mk_status(top=samlp.STATUS_SUCCESS, second=None, message=None):
    sc = samlp.StatusCode(value=top)
    if second is not None:
        sc.status_code = samlp.StatusCode(value=second)
    st = samlp.Status(status_code=sc)
    if message is not None:
        st.status_message = samlp.StatusMessage(text=message)
    return st


def mk_response(issue_instant, assertions, in_response_to=REQ_ID, destination=ACS, version="2.0",
                status=None, rid="id-r1", issuer=IDP_ID):
    r = samlp.Response(id=rid, version=version, issue_instant=issue_instant,
                       in_response_to=in_response_to, destination=destination,
                       issuer=saml.Issuer(text=issuer),
                       status=status if status is not None else mk_status())
    r.assertion = list(assertions)
    return r


def mk_authn_response(resp, timeslack=0, allow_unsolicited=False, return_addrs=None,
                      outstanding=None, conv_info=None, regex=None, entity_id=SP_ID,
                      want_assertions_signed=False, attribute_converters=None):
    sec = HandOverSec(resp)
    ar = AuthnResponse(sec, attribute_converters or [], entity_id,
                       return_addrs=[ACS] if return_addrs is None else return_addrs,
                       outstanding_queries={REQ_ID: "/"} if outstanding is None else outstanding,
                       timeslack=timeslack, allow_unsolicited=allow_unsolicited,
                       want_assertions_signed=want_assertions_signed,
                       valid_destination_regex=regex, conv_info=conv_info,
                       allow_unknown_attributes=True)
    return ar
