"""C06 - only successful SAML 2.0 responses ever yield an identity."""
from harness.common import *                               # noqa: F401,F403
from veriflib.boot import Clock
from veriflib.runner import Cond
from saml2_tophat import response as R, samlp
from saml2_tophat.request import AuthnRequest, LogoutRequest, AttributeQuery

TOPS = [samlp.STATUS_SUCCESS, samlp.STATUS_REQUESTER, samlp.STATUS_RESPONDER,
        samlp.STATUS_VERSION_MISMATCH, "urn:example:unknown-top"]
SECONDS = sorted(R.STATUSCODE2EXCEPTION.keys())        # the documented table, read from the code under test
N2 = len(SECONDS)                                      # index N2 = absent, N2+1 = unknown code
VERSIONS = ["2.0", "1.0", "1.1", "2.1", "3.0", "x", "", "2", "2.00", "+2.0", " 2.0", "2.0 ", "2e0", "02.0", "nan", "2,0"]

# Independent copy of the documented mapping (docs: one exception class per standard status code):
# class name is "Status" + CamelCase of the last URN component.
def _doc_class_name(urn):
    tail = urn.rsplit(":", 1)[1]
    return "Status" + tail[0].upper() + tail[1:]

_DOC_EXC = {
    "AuthnFailed": "StatusAuthnFailed", "InvalidAttrNameOrValue": "StatusInvalidAttrNameOrValue",
    "InvalidNameIDPolicy": "StatusInvalidNameidPolicy", "NoAuthnContext": "StatusNoAuthnContext",
    "NoAvailableIDP": "StatusNoAvailableIdp", "NoPassive": "StatusNoPassive",
    "NoSupportedIDP": "StatusNoSupportedIdp", "PartialLogout": "StatusPartialLogout",
    "ProxyCountExceeded": "StatusProxyCountExceeded", "RequestDenied": "StatusRequestDenied",
    "RequestUnsupported": "StatusRequestUnsupported", "RequestVersionDeprecated": "StatusRequestVersionDeprecated",
    "RequestVersionTooHigh": "StatusRequestVersionTooHigh", "RequestVersionTooLow": "StatusRequestVersionTooLow",
    "ResourceNotRecognized": "StatusResourceNotRecognized", "TooManyResponses": "StatusTooManyResponses",
    "UnknownAttrProfile": "StatusUnknownAttrProfile", "UnknownPrincipal": "StatusUnknownPrincipal",
    "UnsupportedBinding": "StatusUnsupportedBinding", "VersionMismatch": "StatusVersionMismatch",
    "Responder": "StatusResponder",
}
EXPECT = [_DOC_EXC[u.rsplit(":", 1)[1]] for u in SECONDS]


def status(top: int, second: int, has_msg: bool, has_assertion: bool, version: int):
    ck = Clock(1000000)
    t = ck.stamp(1, 1000000)
    a = mk_assertion(t, {"not_on_or_after": ck.stamp(2, 1000600), "audiences": [[SP_ID]]},
                     {"not_on_or_after": ck.stamp(3, 1000600), "in_response_to": REQ_ID, "recipient": ACS},
                     {}, attrs=[saml.Attribute(name="uid", attribute_value=[saml.AttributeValue(text="alice")])])
    sec = None if second == N2 else ("urn:example:unknown-second" if second == N2 + 1 else SECONDS[second])
    st = mk_status(TOPS[top], sec, "msg" if has_msg else None)
    resp = mk_response(t, [a] if has_assertion else [], status=st, version=VERSIONS[version])
    ar = mk_authn_response(resp)
    exc = None
    acc = False
    try:
        ar.loads("<concrete/>", False)
        acc = ar.verify() is not None
    except Exception as e:
        exc = e
    bad = (top != 0) | (version != 0)
    ok = True
    if bad:
        ok = (not acc) & (not ar.ava) & (ar.name_id is None)
        if (version == 0) & (second < N2):
            # addressing / signature checks passed: the documented class for this second-level code
            ok = ok & (exc is not None) & (type(exc).__name__ == EXPECT[second])
        elif (version == 0) & (second == N2):
            ok = ok & (exc is not None) & (type(exc) is R.StatusError)
        else:
            ok = ok & ((exc is not None) | (not acc))
    else:
        ok = acc == has_assertion if has_assertion else True
        if has_assertion:
            ok = acc & (ar.name_id is not None)
    reached = ((exc is not None) | (not acc)) if bad else acc
    return ok, reached, "accepted=%s exc=%r" % (acc, exc)


def _msg(ck, k, top, second, version, uid):
    t = ck.stamp(1 + 3 * k, 1000000)
    a = mk_assertion(t, {"not_on_or_after": ck.stamp(2 + 3 * k, 1000600), "audiences": [[SP_ID]]},
                     {"not_on_or_after": ck.stamp(3 + 3 * k, 1000600), "in_response_to": REQ_ID, "recipient": ACS},
                     {}, attrs=[saml.Attribute(name="uid", attribute_value=[saml.AttributeValue(text=uid)])], name_id_text=uid)
    sec = None if second == N2 else ("urn:example:unknown-second" if second == N2 + 1 else SECONDS[second])
    return mk_response(t, [a], status=mk_status(TOPS[top], sec, None), version=VERSIONS[version])


def reuse(top1: int, version1: int, top2: int, second2: int, version2: int, verify_twice: bool):
    """One response object handles two messages in a row (loads + verify each, as an application
    that keeps its AuthnResponse around does, or verify() is run twice as Entity._parse_response
    does): the verdict on the second message is its own, never the first one's."""
    ck = Clock(1000000)
    ar = mk_authn_response(_msg(ck, 0, top1, N2, version1, "alice"))
    acc1 = False
    try:
        ar.loads("<concrete/>", False)
        acc1 = ar.verify() is not None
        if verify_twice:
            acc1 = ar.verify() is not None
    except Exception:
        acc1 = False
    ar.sec.obj = _msg(ck, 1, top2, second2, version2, "mallory")
    acc2 = False
    exc = None
    try:
        ar.loads("<concrete/>", False)
        acc2 = ar.verify() is not None
    except Exception as e:
        exc = e
    bad1 = (top1 != 0) | (version1 != 0)
    bad2 = (top2 != 0) | (version2 != 0)
    ok = (acc1 == (not bad1)) & (acc2 == (not bad2))
    if bad2 & (version2 == 0) & (second2 < N2):
        ok = ok & (exc is not None) & (type(exc).__name__ == EXPECT[second2])
    if (not bad2) & acc2:
        ok = ok & (ar.name_id is not None) & (ar.name_id.text == "mallory") & (ar.ava == {"uid": ["mallory"]})
    return ok, acc2 | bad2, "first accepted=%s second accepted=%s exc=%r" % (acc1, acc2, exc)


REQS = [("authn_request", AuthnRequest, lambda t, v: samlp.AuthnRequest(id="id-q1", version=v, issue_instant=t, issuer=saml.Issuer(text=SP_ID))),
        ("logout_request", LogoutRequest, lambda t, v: samlp.LogoutRequest(id="id-q1", version=v, issue_instant=t, issuer=saml.Issuer(text=SP_ID),
                                                                          name_id=saml.NameID(text="x"))),
        ("attribute_query", AttributeQuery, lambda t, v: samlp.AttributeQuery(id="id-q1", version=v, issue_instant=t, issuer=saml.Issuer(text=SP_ID),
                                                                            subject=saml.Subject(name_id=saml.NameID(text="x"))))]


def request_version(kind: int, version: int):
    ck = Clock(1000000)
    t = ck.stamp(1, 1000000)
    _, cls, mk = REQS[kind]
    msg = mk(t, VERSIONS[version])
    rq = cls(HandOverSec(), [], ["http://idp/sso"], 0)
    rq.signature_check = lambda xml, **kw: msg
    acc = False
    try:
        rq.loads("<concrete/>", None)
        acc = rq.verify() is not None
    except Exception:
        acc = False
    ok = (acc == (version == 0))
    return ok, True, "accepted=%s" % acc


def version_string(v: str, is_request: bool):
    """Version as an arbitrary string: accepted iff it is exactly '2.0'."""
    ck = Clock(1000000)
    t = ck.stamp(1, 1000000)
    if is_request:
        msg = samlp.AuthnRequest(id="id-q1", version=v, issue_instant=t, issuer=saml.Issuer(text=SP_ID))
        rq = AuthnRequest(HandOverSec(), [], ["http://idp/sso"], 0)
        rq.signature_check = lambda xml, **kw: msg
        acc = False
        from saml2_tophat import request as RQ
        saved = RQ.valid_instance
        RQ.valid_instance = lambda _x: True       # valid_string() forks per character class; C13 covers validation
        try:
            rq.loads("<concrete/>", None)
            acc = rq.verify() is not None
        except Exception:
            acc = False
        finally:
            RQ.valid_instance = saved
    else:
        a = mk_assertion(t, {"not_on_or_after": ck.stamp(2, 1000600), "audiences": [[SP_ID]]},
                         {"not_on_or_after": ck.stamp(3, 1000600), "in_response_to": REQ_ID, "recipient": ACS}, {})
        resp = mk_response(t, [a], version=v)
        ar = mk_authn_response(resp)
        acc = False
        try:
            ar.loads("<concrete/>", False)
            acc = ar.verify() is not None
        except Exception:
            acc = False
    return acc == (v == "2.0"), True, "accepted=%s" % acc


CONDITIONS = [
    Cond(name="status", fn="status",
         params=[("top", "int"), ("second", "int"), ("has_msg", "bool"), ("has_assertion", "bool"), ("version", "int")],
         pre=["0 <= top < %d" % len(TOPS), "0 <= second <= %d" % (N2 + 1), "0 <= version < %d" % len(VERSIONS)],
         partitions={"quick": [{"top": t, "version": v} for t in range(len(TOPS)) for v in (0, 1, 5)] +
                              [{"top": 0, "version": v, "second": N2} for v in range(6, len(VERSIONS))],
                     "thorough": [{"top": t, "version": v} for t in range(len(TOPS)) for v in range(len(VERSIONS))]},
         timeout={"quick": 300, "thorough": 600}, path_timeout=60,
         functions=["response.StatusResponse.status_ok", "response.StatusResponse._verify", "response.AuthnResponse.loads/verify/parse_assertion",
                    "response.STATUSCODE2EXCEPTION", "validate.valid_instance"],
         bounds="top-level code in {Success, Requester, Responder, VersionMismatch, unknown}; second-level: all 21 table codes, absent, unknown; "
                "status message present/absent; assertion present/absent; Version from a 16-entry catalogue incl. strings that only float() equates with 2.0 ('2', '2.00', '+2.0', '2e0', padded, 'nan') (quick: 2.0, 1.0, x for every status; the rest with Success) - finite table, exhaustive"),
    Cond(name="reuse", fn="reuse",
         params=[("top1", "int"), ("version1", "int"), ("top2", "int"), ("second2", "int"), ("version2", "int"), ("verify_twice", "bool")],
         pre=["0 <= top1 < %d" % len(TOPS), "0 <= top2 < %d" % len(TOPS), "0 <= second2 <= %d" % (N2 + 1), "0 <= version1 < 6", "0 <= version2 < 6"],
         partitions={"quick": [{"top1": 0, "version1": 0, "top2": t, "version2": v} for t in range(len(TOPS)) for v in (0, 1)] +
                              [{"top1": 2, "version1": 0, "top2": 0, "version2": 0}, {"top1": 0, "version1": 1, "top2": 0, "version2": 0}],
                     "thorough": [{"top1": a, "top2": b, "version1": v, "verify_twice": (a + b + v) % 2 == 0} for a in range(len(TOPS)) for b in range(len(TOPS)) for v in (0, 1, 5)]},
         timeout={"quick": 600, "thorough": 900}, path_timeout=60,
         functions=["response.StatusResponse.loads/_loads/_verify/status_ok", "response.AuthnResponse.verify/parse_assertion"],
         bounds="two messages in a row through one AuthnResponse object (each: top-level code, Version from the first 6 catalogue entries; second message: all second-level codes), "
                "optionally verify() twice on the first; quick: first message good, or one bad first message"),
    Cond(name="version_string", fn="version_string", params=[("v", "str"), ("is_request", "bool")],
         pre=["len(v) <= 6"], partitions={"quick": [{"is_request": True}]},
         timeout={"quick": 300, "thorough": 900}, path_timeout=60,
         functions=["request.Request._verify"],
         bounds="requests: Version = ANY string of <= 6 characters (z3 string theory; schema validation stubbed for this condition). Responses call float() on the "
                "Version, which realises a symbolic string, so responses use the catalogue only"),
    Cond(name="request_version", fn="request_version", params=[("kind", "int"), ("version", "int")],
         pre=["0 <= kind < 3", "0 <= version < %d" % len(VERSIONS)],
         partitions={"quick": [{}]}, timeout={"quick": 200, "thorough": 300},
         functions=["request.Request._loads", "request.Request._verify", "request.Request.verify"],
         bounds="AuthnRequest, LogoutRequest, AttributeQuery x 7 versions"),
]

ASSUMPTIONS = [
    "parsed-object hand-over (stub signature_check returns the object): signature and XML layers are not the subject here",
    "integer clock model with a fixed, valid clock",
    "AST cuts 1-4 (log calls, exception message formatting)",
    "expected exception class per second-level code is written independently from the documented names (harness/c06.py _DOC_EXC), not read from STATUSCODE2EXCEPTION",
]
