"""C03 - signatures are trusted only under the issuer's keys from metadata."""
from harness import fixtures as F
from veriflib.boot import Clock, concrete
from veriflib.stubs import FakeTemp
from veriflib.runner import Cond
from saml2_tophat import md, samlp, saml, BINDING_HTTP_REDIRECT
from saml2_tophat import xmldsig as ds
from saml2_tophat.mdstore import MetadataStore, InMemoryMetaData
from saml2_tophat.sigver import CryptoBackend, SignatureError, MissingKey, pre_signature_part

CLIENT = F.mk_client()
SEC = CLIENT.sec
STORE = MetadataStore(None, None)
E1, E2 = "urn:verif:idp:one", "urn:verif:idp:two"
ISSUERS = [E1, E2, "urn:verif:unknown", None, " " + E1 + " "]
ISSUER_ENTITY = [0, 1, None, None, 0]
CERTS = ["MIICone1AAAA", "MIICone2BBBB", "MIICtwo1CCCC", "MIICtwo2DDDD", "MIICembedEEEE"]   # e1k1 e1k2 e2k1 e2k2 embedded-only
USES = ["signing", "encryption", None]


class CertBackend(CryptoBackend):
    """xmlsec1 by contract: the signature verifies iff the certificate file handed over holds the
    certificate whose key made the signature."""

    def __init__(self):
        CryptoBackend.__init__(self)
        self.signer = None
        self.tried = []

    def version(self):
        return "1.2.33"

    def validate_signature(self, signedtext, cert_file, cert_type, node_name, node_id, id_attr):
        content = FakeTemp.REG[cert_file].content
        if isinstance(content, bytes):
            content = content.decode("ascii")
        body = "".join(content.split("\n")[1:-1])
        self.tried.append(body)
        if body == self.signer:
            return True
        raise SignatureError("FAIL")


BACK = CertBackend()
# signature elements as the parser delivers them (serialised and parsed once, at import)
SIGS = [ds.signature_from_string(("%s" % pre_signature_part("id-r1", public_key=e)))
        for e in (None, CERTS[0], CERTS[2], CERTS[4])]


# the document text each item was "parsed from" (the structural checks in _check_signature read it)
DOCS = {}
for _i, _iss in enumerate(ISSUERS):
    for _e in range(4):
        DOCS[(_i, _e)] = "%s" % samlp.Response(id="id-r1", version="2.0", issuer=saml.Issuer(text=_iss) if _iss is not None else None,
                                              signature=SIGS[_e])


def _kd(use, text):
    return md.KeyDescriptor(use=use, key_info=ds.KeyInfo(x509_data=[ds.X509Data(x509_certificate=ds.X509Certificate(text=text))]))


def _ent(eid, role, keys):
    if role == "idp":
        return md.EntityDescriptor(entity_id=eid, idpsso_descriptor=[md.IDPSSODescriptor(
            protocol_support_enumeration=samlp.NAMESPACE, key_descriptor=keys,
            single_sign_on_service=[md.SingleSignOnService(binding=BINDING_HTTP_REDIRECT, location="http://x/sso")])])
    return md.EntityDescriptor(entity_id=eid, spsso_descriptor=[md.SPSSODescriptor(
        protocol_support_enumeration=samlp.NAMESPACE, key_descriptor=keys,
        assertion_consumer_service=[md.AssertionConsumerService(binding=BINDING_HTTP_REDIRECT, location="http://x/acs", index="1")])])


def trust(u11: int, u12: int, u21: int, u22: int, issuer: int, signer: int, embedded: int, only_md: bool, e2_is_sp: bool, nkeys1: int,
          outer: int = 0, h1: int = 0, h2: int = 0):
    """SecurityContext._check_signature with a real metadata store holding two entities (each with
    key descriptors of symbolic use), a claimed Issuer, the certificate whose key really signed, an
    optional embedded KeyInfo certificate and the only_use_keys_in_metadata flag."""
    Clock(1000)
    issuer, signer, embedded, outer = concrete(issuer), concrete(signer), concrete(embedded), concrete(outer)
    h1, h2 = concrete(h1), concrete(h2)
    uses = [USES[concrete(u)] for u in (u11, u12, u21, u22)]
    nkeys1 = concrete(nkeys1)
    s1 = InMemoryMetaData(None, "")
    k1 = [_kd(uses[0], CERTS[0]), _kd(uses[1], CERTS[1])][:nkeys1]
    s1.do_entity_descriptor(_ent(E1, "idp", k1))
    s1.do_entity_descriptor(_ent(E2, "sp" if concrete(e2_is_sp) else "idp", [_kd(uses[2], CERTS[2]), _kd(uses[3], CERTS[3])]))
    STORE.metadata = {"s1": s1}
    SEC.metadata = STORE
    SEC.only_use_keys_in_metadata = concrete(only_md)
    SEC.crypto = BACK
    BACK.signer = CERTS[signer]
    BACK.tried = []
    FakeTemp.REG.clear()
    emb = [None, CERTS[0], CERTS[2], CERTS[4]][embedded]
    item = samlp.Response(id="id-r1", version="2.0", issuer=saml.Issuer(text=ISSUERS[issuer]) if ISSUERS[issuer] is not None else None,
                          signature=SIGS[embedded])
    doc = DOCS[(issuer, embedded)]
    # earlier look-ups on the same store (what encryption, metadata display or a previous check did)
    # must not change what the signature check trusts
    for h in (h1, h2):
        if h:
            try:
                STORE.certs([E1, E2][(h - 1) // 3], "any", USES[(h - 1) % 3])
            except Exception:
                pass
    acc = False
    exc = None
    try:
        # `outer`: the issuer of the enclosing message, which callers such as decrypt_assertions supply;
        # it may stand in only for a signed element that names no Issuer itself
        outer_issuer = [None, saml.Issuer(text=E1), saml.Issuer(text=E2)][outer]
        acc = SEC._check_signature(doc, item, "urn:oasis:names:tc:SAML:2.0:protocol:Response", issuer=outer_issuer) is not None
    except Exception as e:
        exc = e
    # ---- reference
    ent = ISSUER_ENTITY[issuer]
    if ISSUERS[issuer] is None and outer:
        ent = outer - 1
    if ent == 0:
        trusted = [CERTS[i] for i in (0, 1)[:nkeys1] if uses[i] in ("signing", None)]
    elif ent == 1:
        trusted = [CERTS[2 + i] for i in (0, 1) if uses[2 + i] in ("signing", None)]
    else:
        trusted = []
    if trusted:
        expect = CERTS[signer] in trusted
    elif (not only_md) and (emb is not None):
        expect = CERTS[signer] == emb
    else:
        expect = False
    ok = acc == expect
    if (not trusted) and only_md:
        ok = ok and isinstance(exc, MissingKey)
    # never even try a certificate outside the permitted set
    allowed = set(trusted) if trusted else ({emb} if ((not only_md) and emb is not None) else set())
    ok = ok and all(t in allowed for t in BACK.tried)
    return ok, acc | (not expect), "accepted=%s expected=%s tried=%r exc=%r" % (acc, expect, BACK.tried, exc)


_P = [("u11", "int"), ("u12", "int"), ("u21", "int"), ("u22", "int"), ("issuer", "int"), ("signer", "int"), ("embedded", "int"),
      ("only_md", "bool"), ("e2_is_sp", "bool"), ("nkeys1", "int"), ("outer", "int"), ("h1", "int"), ("h2", "int")]
CONDITIONS = [
    Cond(name="trust", fn="trust", params=_P,
         pre=["0 <= u11 <= 2", "0 <= u12 <= 2", "0 <= u21 <= 2", "0 <= u22 <= 2", "0 <= issuer < %d" % len(ISSUERS), "0 <= signer < %d" % len(CERTS),
              "0 <= embedded <= 3", "0 <= nkeys1 <= 2", "0 <= outer <= 2", "h1 == 0", "h2 == 0"],
         partitions={"quick": [{"issuer": i, "signer": s, "u22": 0, "u12": (i + s) % 3, "e2_is_sp": (i + s) % 2 == 0, "nkeys1": 2 if (i + s) % 4 else 0, "outer": (i + 2 * s) % 3, "u11": (i * s) % 3}
                               for i in range(len(ISSUERS)) for s in range(len(CERTS))],
                     "thorough": [{"issuer": i, "signer": s, "u22": (i + o) % 3, "u12": (i + s) % 3, "e2_is_sp": (i + s) % 2 == 0, "nkeys1": 2 if (i + s + o) % 4 else 1, "outer": o, "u11": (i * s + o) % 3}
                                  for i in range(len(ISSUERS)) for s in range(len(CERTS)) for o in range(3)]},
         timeout={"quick": 600, "thorough": 1800}, path_timeout=60,
         functions=["sigver.SecurityContext._check_signature", "sigver.SecurityContext.verify_signature", "sigver.cert_from_instance/cert_from_key_info/pem_format",
                    "mdstore.MetadataStore.certs", "mdstore.MetaData.certs (extract_certs)", "mdstore.repack_cert", "mdstore.InMemoryMetaData.do_entity_descriptor"],
         bounds="federation of two entities (second one IdP or SP) with 0-2 / 2 key descriptors each of use {signing, encryption, unspecified}; claimed Issuer in {first, second, unknown, absent, "
                "whitespace-padded first}; issuer of the enclosing message supplied by the caller {none, first, second}; actual signing key in {each of the 4 metadata certificates, an embedded-only certificate}; embedded KeyInfo certificate in {none, first entity's, "
                "second entity's, unrelated}; only_use_keys_in_metadata on/off (quick: 25, thorough: 75 partitions of fixed issuer/signer/outer and sampled use assignments, the remaining uses, the embedded certificate and the flag free; a full grid costs ~2 h)"),
    Cond(name="history", fn="trust", params=_P,
         pre=["0 <= u11 <= 2", "0 <= u12 <= 2", "0 <= u21 <= 2", "0 <= u22 <= 2", "0 <= issuer <= 1", "0 <= signer <= 3",
              "0 <= embedded <= 3", "0 <= nkeys1 <= 2", "outer == 0", "0 <= h1 <= 6", "0 <= h2 <= 6"],
         partitions={"quick": [{"issuer": i, "signer": s, "h1": 2 + 3 * i, "embedded": 0, "nkeys1": 2, "e2_is_sp": False, "u12": 1 + i, "u22": 2 - i, "u21": s % 3} for i in (0, 1) for s in range(4)],
                     "thorough": [{"issuer": i, "signer": s, "h1": h, "embedded": (s + h) % 4, "nkeys1": 2, "e2_is_sp": (i + h) % 2 == 0, "u12": (i + h) % 3, "u22": (s + h) % 3, "u21": s % 3}
                                  for i in (0, 1) for s in range(4) for h in range(1, 7)]},
         timeout={"quick": 600, "thorough": 1200}, path_timeout=60,
         functions=["mdstore.MetadataStore.certs", "mdstore.MetaData.certs (extract_certs)", "sigver.SecurityContext._check_signature"],
         bounds="as trust, preceded by up to two certificate look-ups on the same store (entity x use in {signing, encryption, unspecified}); claimed Issuer one of the two entities; "
                "quick: one earlier encryption look-up for the claimed issuer, uses of the first key descriptors free"),
]

ASSUMPTIONS = [
    "xmlsec1 by contract: verification succeeds iff the certificate file handed to the backend holds the certificate whose key made the signature",
    "metadata enters at object level (md.EntityDescriptor -> do_entity_descriptor); short fake certificate texts; temp files are in-memory fakes so the backend model can see the text",
    "certificate validity dates (active_cert) and validate_certificate handlers are outside the claim",
]
