"""C07 - an IdP never releases attributes beyond what its policy allows."""
import re
from harness import fixtures as F
from harness.idpfix import IdPFixture
from veriflib.boot import Clock
from veriflib.runner import Cond
from saml2_tophat import saml, samlp
from saml2_tophat.assertion import Policy

RS = "http://refeds.org/category/research-and-scholarship"
SP_DECL = "urn:verif:sp:declares"          # required givenName, optional mail
SP_NONE = "urn:verif:sp:nothing"           # declares nothing
SP_RS = "urn:verif:sp:rs"                  # declares nothing, entity category research-and-scholarship
SP_REQ2 = "urn:verif:sp:two"               # required givenName + surName
SPS = [SP_DECL, SP_NONE, SP_RS, SP_REQ2]
DECL = {SP_DECL: (["givenname"], ["mail"]), SP_NONE: ([], []), SP_RS: ([], []), SP_REQ2: (["givenname", "surname"], [])}
CATS = {SP_DECL: [], SP_NONE: [], SP_RS: [RS], SP_REQ2: []}


def _spc(eid, n, required=None, optional=None, cat=None):
    return F.sp_conf(entityid=eid, acs_post="http://sp%d.example.com/acs" % n, acs_redirect=None, enc=False,
                     required=required, optional=optional, entity_category=cat)


IDP = IdPFixture([_spc(SP_DECL, 1, ["givenName"], ["mail"]), _spc(SP_NONE, 2), _spc(SP_RS, 3, cat=[RS]),
                  _spc(SP_REQ2, 4, ["givenName", "surName"])])
ACS = {SP_DECL: "http://sp1.example.com/acs", SP_NONE: "http://sp2.example.com/acs", SP_RS: "http://sp3.example.com/acs",
       SP_REQ2: "http://sp4.example.com/acs"}

# the same SP id with and without its entity category, in two separate metadata stores
MD_RS = IDP.server.metadata
MD_PLAIN = IdPFixture([_spc(SP_RS, 3)]).server.metadata
MAILS = ["a@example.com", "b@other.org"]
RX = r".*@example\.com$"
_BASE = {"lifetime": {"minutes": 15}, "name_form": saml.NAME_FORMAT_URI}
POLICIES = [
    {"default": dict(_BASE, attribute_restrictions=None)},                                                    # 0 everything
    {"default": dict(_BASE, attribute_restrictions={"givenName": None, "mail": [RX]})},                      # 1 names + regex
    {"default": dict(_BASE, attribute_restrictions=None), SP_DECL: dict(_BASE, attribute_restrictions={"mail": None})},   # 2 per-SP entry
    {"default": dict(_BASE, entity_categories=["refeds"])},                                                  # 3 EC with always-released key
    {"default": dict(_BASE, entity_categories=["at_egov_pvp2"])},                                            # 4 EC without always-released key
    {"default": dict(_BASE, attribute_restrictions=None, fail_on_missing_requested=False)},                  # 5
    {"default": dict(_BASE, attribute_restrictions={"givenName": None, "mail": [RX]}, fail_on_missing_requested=False)},  # 6
    {"default": dict(_BASE, entity_categories=["refeds"], attribute_restrictions={"mail": [RX], "sn": None})},           # 7 EC + restrictions
    {"default": dict(_BASE, attribute_restrictions={"givenName": None, "mail": [RX]}), SP_DECL: {"lifetime": {"minutes": 5}},
     SP_NONE: {"nameid_format": saml.NAMEID_FORMAT_PERSISTENT}},                                               # 8 per-SP entries that set only other keys
    {"default": dict(_BASE, entity_categories=["refeds"]), SP_RS: {"lifetime": {"minutes": 5}}, SP_NONE: {"lifetime": {"minutes": 5}}},   # 9 same, with categories
]
EC_TABLE = {  # written from the category specifications, independent of the modules under test
    "refeds": {"": ["edupersontargetedid"], RS: ["edupersonprincipalname", "edupersonscopedaffiliation", "mail", "givenname", "sn", "displayname"]},
    "at_egov_pvp2": {},   # none of the harness SPs carries a PVP2 category
}


def permitted(pi, sp, identity):
    """Reference release computed from docs/howto/config.rst: entity categories -> declared
    required/optional (when no entity-category policy applies) -> attribute_restrictions."""
    pol = POLICIES[pi]
    # a per-SP entry overrides the default key by key; what it does not set is inherited
    spec = dict(pol["default"])
    spec.update(pol.get(sp, {}))
    ava = dict((k, list(v)) for k, v in identity.items())
    if spec.get("entity_categories"):
        names = set()
        for mod in spec["entity_categories"]:
            for cat, attrs in EC_TABLE[mod].items():
                if cat == "" or cat in CATS[sp]:
                    names.update(attrs)
        ava = dict((k, v) for k, v in ava.items() if k.lower() in names)
    else:
        req, opt = DECL[sp]
        if req or opt:
            ava = dict((k, v) for k, v in ava.items() if k.lower() in req + opt)
    restr = spec.get("attribute_restrictions")
    if restr:
        low = dict((k.lower(), v) for k, v in restr.items())
        out = {}
        for k, v in ava.items():
            if k.lower() in low:
                pats = low[k.lower()]
                vals = v if not pats else [x for x in v if any(re.match(p, x) for p in pats)]
                if vals:
                    out[k] = vals
        ava = out
    return ava


def policy_reuse(first_rs: bool, has_given: bool, has_mail: bool, pi: int):
    """One long-lived Policy object asked twice about the same SP id while the metadata it is given
    differs (the SP gains / loses its entity category): each answer follows the metadata of that call."""
    from veriflib.boot import concrete
    pi = [3, 7, 9][concrete(pi)]
    pol = Policy(POLICIES[pi])
    identity = {}
    if has_given:
        identity["givenName"] = ["Alice"]
    if has_mail:
        identity["mail"] = [MAILS[0]]
    stores = [MD_RS, MD_PLAIN] if first_rs else [MD_PLAIN, MD_RS]
    cats = [[RS], []] if first_rs else [[], [RS]]
    ok = True
    out = []
    for md_, cat in zip(stores, cats):
        CATS[SP_RS] = cat
        try:
            got = pol.restrict(dict((k, list(v)) for k, v in identity.items()), SP_RS, md_)
            want = permitted(pi, SP_RS, identity)
            ok = ok and all(k in want and all(x in want[k] for x in v) for k, v in got.items())
            out.append((sorted(got), sorted(want)))
        finally:
            CATS[SP_RS] = [RS]
    return ok, True, "%r" % (out,)


def released_of(resp):
    """Read back attribute friendly names/names and values from the response object."""
    out = {}
    assertions = resp.assertion if isinstance(resp.assertion, list) else ([resp.assertion] if resp.assertion else [])
    for a in assertions:
        for st in a.attribute_statement:
            for at in st.attribute:
                key = (at.friendly_name or at.name)
                out.setdefault(key, [])
                for v in at.attribute_value:
                    out[key].append(v.text)
    return out


def release(pi: int, si: int, has_given: bool, has_sn: bool, has_mail: bool, mail: int, has_secret: bool, two_mails: bool, attr_query: bool = False):
    Clock(1000000)
    IDP.reset()
    sp = SPS[si]
    identity = {}
    if has_given:
        identity["givenName"] = ["Alice"]
    if has_sn:
        identity["surName"] = ["Smith"]
    if has_mail:
        identity["mail"] = [MAILS[mail]] + ([MAILS[1 - mail]] if two_mails else [])
    if has_secret:
        identity["secret"] = ["s3cr3t"]
    exc = None
    resp = None
    try:
        if attr_query:
            # answer to an AttributeQuery: the attribute authority's policy comes from its configuration
            IDP.server.config.setattr("aa", "policy", Policy(POLICIES[pi]))
            resp = IDP.server.create_attribute_response(
                dict((k, list(v)) for k, v in identity.items()), "id-req1", ACS[sp], sp,
                name_id=saml.NameID(format=saml.NAMEID_FORMAT_TRANSIENT, text="nid-1"))
        else:
            resp = IDP.server.create_authn_response(
                dict((k, list(v)) for k, v in identity.items()), "id-req1", ACS[sp], sp,
                name_id=saml.NameID(format=saml.NAMEID_FORMAT_TRANSIENT, text="nid-1"),
                authn={"class_ref": "urn:oasis:names:tc:SAML:2.0:ac:classes:Password", "authn_auth": "http://idp/login"},
                release_policy=Policy(POLICIES[pi]))
    except Exception as e:
        exc = e
    if resp is None:
        return True, True, "exception %r" % exc          # an error is an allowed outcome
    success = resp.status.status_code.value == samlp.STATUS_SUCCESS
    rel = released_of(resp)
    allowed = permitted(pi, sp, identity)
    # compare by case-folded local name; sn and surName are the same attribute (urn:oid:2.5.4.4)
    def norm(k):
        k = k.lower()
        return "surname" if k == "sn" else k
    allowed_by_friendly = dict((norm(k), v) for k, v in allowed.items())
    rel = dict((norm(k), v) for k, v in rel.items())
    ok = True
    for k, vals in rel.items():
        if k not in allowed_by_friendly:
            ok = False
        else:
            for v in vals:
                if v not in allowed_by_friendly[k]:
                    ok = False
    if not success:
        ok = ok and (len(rel) == 0)
    return ok, True, "status_success=%s released=%r allowed=%r exc=%r" % (success, rel, allowed_by_friendly, exc)


CONDITIONS = [
    Cond(name="release", fn="release",
         params=[("pi", "int"), ("si", "int"), ("has_given", "bool"), ("has_sn", "bool"), ("has_mail", "bool"), ("mail", "int"),
                 ("has_secret", "bool"), ("two_mails", "bool"), ("attr_query", "bool")],
         pre=["0 <= pi < %d" % len(POLICIES), "0 <= si < %d" % len(SPS), "0 <= mail <= 1"],
         partitions={"quick": [{"pi": p, "si": s, "attr_query": (p + s) % 3 == 0} for p in range(len(POLICIES)) for s in range(len(SPS))],
                     "thorough": [{"pi": p, "si": s, "attr_query": a} for p in range(len(POLICIES)) for s in range(len(SPS)) for a in (False, True)]},
         timeout={"quick": 900, "thorough": 1800}, path_timeout=120,
         functions=["server.Server.create_authn_response/_authn_response/setup_assertion", "server.Server.create_attribute_response", "assertion.Assertion.apply_policy/construct",
                    "assertion.Policy.restrict/filter/get_entity_categories/get_attribute_restrictions/get_fail_on_missing_requested",
                    "assertion.filter_on_attributes", "assertion.filter_attribute_value_assertions", "assertion.post_entity_categories",
                    "mdstore.MetadataStore.attribute_requirement/entity_categories", "attribute_converter.from_local"],
         bounds="identity: every subset of {givenName, surName, mail (1-2 values, matching / not matching the pattern), undeclared 'secret'}; "
                "10 policy shapes (unrestricted, names+regex, per-SP entry, entity categories with and without an always-released key, "
                "fail_on_missing_requested off, categories+restrictions, per-SP entries that set only unrelated keys and must inherit the default's restrictions / categories); 4 SP declarations (required+optional, nothing, category R&S, two required) - "
                "includes unsatisfiable requirements"),
]

CONDITIONS.append(
    Cond(name="policy_reuse", fn="policy_reuse", params=[("first_rs", "bool"), ("has_given", "bool"), ("has_mail", "bool"), ("pi", "int")],
         pre=["0 <= pi <= 2"], partitions={"quick": [{}]}, timeout={"quick": 600, "thorough": 900}, path_timeout=60,
         functions=["assertion.Policy.restrict/filter/get_entity_categories (two calls on one Policy object)", "assertion.post_entity_categories"],
         bounds="one Policy object (three entity-category policy shapes), two consecutive calls for the same SP id whose metadata gains or loses the R&S category in between"))

ASSUMPTIONS = [
    "responses are unsigned and unencrypted (crypto backend model is never the subject); read back at object level from the Response that create_authn_response returns",
    "SP metadata generated by the library from SP configurations (required_attributes / optional_attributes / entity_category)",
    "reference release (harness/c07.py permitted) written from docs/howto/config.rst and the category specifications; regexes from a fixed list",
    "integer clock model, fixed clock; AST cuts 1-4; id generator stubbed",
]
