"""C18 - name identifiers map to one principal, stably and without cross-SP linkage."""
from veriflib import boot
boot.install()
from veriflib.boot import concrete
from veriflib.runner import Cond
from saml2_tophat import saml, samlp
from saml2_tophat.saml import NameID, NAMEID_FORMAT_PERSISTENT, NAMEID_FORMAT_TRANSIENT
from saml2_tophat import ident as I
from saml2_tophat.ident import IdentDB, code, decode

# ------------------------------------------------------------------------------- (a) encoding
ALPH = ["", "a", ",", "=", "%", " ", "é", "0=", ",1=", "%2C", "+", "/", "\n", "1"]
NA = len(ALPH)
FIELDS = ["name_qualifier", "sp_name_qualifier", "format", "sp_provided_id", "text"]


def _nid(vals):
    return NameID(**dict((f, (v if v != "" else None)) for f, v in zip(FIELDS, vals)))


def encoding(a0: int, a1: int, a2: int, a3: int, a4: int, b0: int, b1: int, b2: int, b3: int, b4: int):
    """decode(code(n)) gives back every field (empty == absent) and code is injective, for
    fields assembled from an alphabet of separators, percent signs, spaces and non-ASCII text."""
    av = [ALPH[concrete(x)] for x in (a0, a1, a2, a3, a4)]
    bv = [ALPH[concrete(x)] for x in (b0, b1, b2, b3, b4)]
    av[0] = av[0] + av[4]          # two-symbol fields on the outer positions
    bv[4] = bv[4] + bv[0]
    na, nb = _nid(av), _nid(bv)
    ca, cb = code(na), code(nb)
    da = decode(ca)
    ok = all((getattr(da, f) or "") == v for f, v in zip(FIELDS, av))
    ok = ok and ((ca == cb) == (av == bv))
    ok = ok and (" " not in ca)       # the store joins codes with spaces
    return ok, True, "code=%r" % ca


# ------------------------------------------------------------------------ (b) state machine
USERS = ["alice", "bob"]
SPS = ["", "urn:sp:one", "urn:sp:two"]
# op codes
OPS = []
for _u in range(2):
    for _s in range(3):
        OPS.append(("persistent", _u, _s))
        OPS.append(("transient", _u, _s))
        OPS.append(("withdraw", _u, _s))          # remove_remote of the persistent id issued for (u, s), if any
    OPS.append(("remove_local", _u))
    OPS.append(("manage", _u))                     # manage-name-id: set SPProvidedID on the persistent id for (u, sp one)
    OPS.append(("mapping", _u))                    # name-id-mapping: persistent id for sp two from the one for sp one
for _u in range(2):
    OPS.append(("bogus_withdraw", _u))            # remove_remote of a NameID that was never issued: the text of the id for (u, sp one) under sp two's qualifier
NOPS = len(OPS)


class Gen:
    """id generator stub: first the symbolic values (may collide with existing keys), then fresh ones."""
    seq = []
    n = 0

    @classmethod
    def reset(cls, seq):
        cls.seq = list(seq)
        cls.n = 0

    @classmethod
    def next(cls):
        # always fresh: a repeat of the (sha256 over system randomness) generator is outside the claim;
        # the symbolic values only vary the spelling
        cls.n += 1
        if cls.seq:
            return "id%d-%d" % (cls.n, cls.seq.pop(0))
        return "fresh%d" % cls.n


def _fake_create_id(self, nformat, name_qualifier="", sp_name_qualifier=""):
    return Gen.next()


IdentDB._create_id = _fake_create_id


def history(o1: int, o2: int, o3: int, o4: int, n: int, g1: int, g2: int, g3: int):
    ops = [OPS[concrete(o)] for o in (o1, o2, o3, o4)][:concrete(n)]
    Gen.reset([concrete(g1), concrete(g2), concrete(g3)])
    db = IdentDB({}, "example.com", "urn:idp")
    issued = {}          # text -> user          (issued and not withdrawn)
    withdrawn = set()    # texts
    pers = {}            # (u, s) -> text
    ok = True
    why = ""
    for op in ops:
        kind = op[0]
        try:
            if kind == "persistent":
                _, u, s = op
                nid = db.persistent_nameid(USERS[u], SPS[s], db.name_qualifier)
                good = bool(nid is not None and nid.text) and (nid.format == NAMEID_FORMAT_PERSISTENT) \
                    and ((nid.sp_name_qualifier or "") == SPS[s])
                if good and (u, s) in pers:
                    good = nid.text == pers[(u, s)]                       # stable
                elif good:
                    good = (nid.text not in issued) and (nid.text not in withdrawn)   # differs from everything else
                    pers[(u, s)] = nid.text
                    issued[nid.text] = u
                if not good:
                    ok = False
                    why = "persistent %r -> %r" % (op, None if nid is None else (nid.text, nid.format, nid.sp_name_qualifier))
            elif kind == "transient":
                _, u, s = op
                nid = db.transient_nameid(USERS[u], SPS[s], db.name_qualifier)
                good = bool(nid is not None and nid.text) and (nid.format == NAMEID_FORMAT_TRANSIENT) \
                    and (nid.text not in issued) and (nid.text not in withdrawn)
                if good:
                    issued[nid.text] = u
                else:
                    ok = False
                    why = "transient %r" % (op,)
            elif kind == "withdraw":
                _, u, s = op
                if (u, s) in pers:
                    t = pers.pop((u, s))
                    nid = [x for x in db.find_nameid(USERS[u]) if x.text == t][0]
                    db.remove_remote(nid)
                    issued.pop(t, None)
                    withdrawn.add(t)
            elif kind == "bogus_withdraw":
                _, u = op
                if (u, 1) in pers:
                    try:
                        db.remove_remote(NameID(text=pers[(u, 1)], format=NAMEID_FORMAT_PERSISTENT, sp_name_qualifier=SPS[2], name_qualifier=db.name_qualifier))
                    except Exception:
                        pass            # refusing is fine; what was issued must stay intact either way (checked below)
            elif kind == "remove_local":
                _, u = op
                db.remove_local(USERS[u])
                for t in [t for t, uu in issued.items() if uu == u]:
                    issued.pop(t)
                    withdrawn.add(t)
                for k in [k for k in pers if k[0] == u]:
                    pers.pop(k)
            elif kind == "manage":
                _, u = op
                if (u, 1) in pers:
                    t = pers[(u, 1)]
                    nid = [x for x in db.find_nameid(USERS[u]) if x.text == t][0]
                    out = db.handle_manage_name_id_request(nid, new_id=samlp.NewID(text="sp-chosen"))
                    if not (out.text == t and out.sp_provided_id == "sp-chosen"):
                        ok = False
                        why = "manage changed the identifier"
            elif kind == "mapping":
                _, u = op
                if (u, 1) in pers:
                    t = pers[(u, 1)]
                    nid = [x for x in db.find_nameid(USERS[u]) if x.text == t][0]
                    pol = samlp.NameIDPolicy(format=NAMEID_FORMAT_PERSISTENT, sp_name_qualifier=SPS[2], allow_create="true")
                    out = db.handle_name_id_mapping_request(nid, pol)
                    good = bool(out is not None and out.text) and (out.sp_name_qualifier == SPS[2])
                    if good and (u, 2) in pers:
                        good = out.text == pers[(u, 2)]
                    elif good:
                        good = out.text not in issued
                        pers[(u, 2)] = out.text
                        issued[out.text] = u
                    if not good:
                        ok = False
                        why = "mapping %r" % (op,)
        except Exception as e:
            ok = False
            why = "%r raised %r" % (op, e)
        # ---- invariant after every step: resolution agrees with the reference map
        for t, u in issued.items():
            if db.find_local_id(NameID(text=t)) != USERS[u]:
                ok = False
                why = why or ("issued id %s does not resolve to %s after %r" % (t, USERS[u], op))
        for t in withdrawn:
            if db.find_local_id(NameID(text=t)) is not None:
                ok = False
                why = why or ("withdrawn id %s still resolves after %r" % (t, op))
        for u in range(2):
            for x in db.find_nameid(USERS[u]):
                if not x.text or issued.get(x.text) != u:
                    ok = False
                    why = why or ("find_nameid(%s) lists %r after %r" % (USERS[u], x.text, op))
    return ok, True, why or "ok"


CONDITIONS = [
    Cond(name="encoding", fn="encoding",
         params=[("a%d" % i, "int") for i in range(5)] + [("b%d" % i, "int") for i in range(5)],
         pre=["0 <= a%d < %d" % (i, NA) for i in range(5)] + ["0 <= b%d < %d" % (i, NA) for i in range(5)],
         partitions={"quick": [{"a1": 0, "a2": 0, "b1": 0, "b2": 0, "b3": 0, "b4": 0, "a0": x, "a3": (x * 5 + 2) % NA, "b0": (x + 1) % NA} for x in range(NA)] +
                              [{"a0": 1, "a3": 0, "a4": 0, "b0": 1, "b3": 0, "b4": 0, "a1": x, "b2": (x * 3 + 1) % NA, "b1": 0} for x in range(NA)],
                     "thorough": [{"a0": x, "a4": y, "a1": (x + y) % NA, "a2": (x * 3 + y) % NA, "a3": (x + 2 * y) % NA, "b1": (x + y) % NA, "b2": (x * 3 + y) % NA,
                                   "b3": (x + 2 * y) % NA, "b4": y} for x in range(NA) for y in range(NA)]},
         timeout={"quick": 600, "thorough": 1800}, path_timeout=60,
         functions=["ident.code", "ident.decode", "urllib.parse.quote/unquote (real)"],
         bounds="five NameID fields assembled from a %d-symbol alphabet (empty, separators ',' '=' ' ' '%%', '0=' and ',1=' look-alikes, '%%2C', '+', '/', newline, non-ASCII), "
                "outer fields two symbols long; pairs of NameIDs for injectivity (quick: sampled field subsets)" % NA),
    Cond(name="history", fn="history",
         params=[("o1", "int"), ("o2", "int"), ("o3", "int"), ("o4", "int"), ("n", "int"), ("g1", "int"), ("g2", "int"), ("g3", "int")],
         pre=["0 <= o1 < %d" % NOPS, "0 <= o2 < %d" % NOPS, "0 <= o3 < %d" % NOPS, "0 <= o4 < %d" % NOPS, "1 <= n <= 4",
              "0 <= g1 <= 2", "0 <= g2 <= 2", "0 <= g3 <= 2"],
         partitions={"quick": [{"n": 2, "o3": 0, "o4": 0, "o1": a, "g1": 0, "g2": 1, "g3": 2} for a in range(NOPS)] +
                              [{"n": 3, "o4": 0, "o1": a, "o2": b, "g1": 0, "g2": 1, "g3": 2} for (a, b) in ((0, 2), (3, 10), (3, 11), (6, 9), (15, 5), (1, 2), (3, 24), (15, 25))],
                     "thorough": [{"n": 3, "o4": 0, "o1": a, "o2": b, "g1": 0, "g2": 1, "g3": 2} for a in range(NOPS) for b in range(NOPS) if (a + b) % 2 == 0 or b >= 24]},
         timeout={"quick": 600, "thorough": 1800}, path_timeout=60,
         functions=["ident.IdentDB.store/remove_remote/remove_local/get_nameid/create_id/find_nameid/transient_nameid/persistent_nameid/find_local_id/match_local_id/"
                    "handle_name_id_mapping_request/handle_manage_name_id_request/construct_nameid/nim_args", "ident.code/decode"],
         bounds="histories of 2 (quick, all) and 3 (thorough: every second pair of leading operations with the third free; quick: sampled prefixes) operations over %d op codes = {issue persistent, issue transient, withdraw} x 2 users x "
                "{no SP, SP one, SP two} + remove_local / manage-name-id / name-id-mapping / withdrawal of a never-issued NameID carrying an issued text per user; id generator always fresh" % NOPS),
]

ASSUMPTIONS = [
    "IdentDB._create_id (sha256 over system randomness) replaced by a generator that never repeats (collisions of the random generator are outside the claim)",
    "identifiers are requested with the IdP's own name qualifier throughout (persistent ids are per user, SP and name qualifier)",
    "in-memory dict as database (shelve-backed storage is I/O)",
    "encoding: fields are concrete per path (alphabet indices are symbolic), real quote/unquote",
    "AST cut 4 turns the bare except in ident.decode into except Exception",
]
