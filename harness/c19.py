"""C19 - the SP session cache returns only unexpired data of the right subject."""
import copy
from veriflib import boot
boot.install()
from veriflib.boot import Clock, concrete
from veriflib.runner import Cond
from saml2_tophat import saml
from saml2_tophat.cache import Cache, ToOld
from saml2_tophat.ident import code

# two name identifiers differing in exactly one field
S = [saml.NameID(text="user", format=saml.NAMEID_FORMAT_PERSISTENT, sp_name_qualifier="sp-one"),
     saml.NameID(text="user", format=saml.NAMEID_FORMAT_PERSISTENT, sp_name_qualifier="sp-two"),
     saml.NameID(text="user", format=saml.NAMEID_FORMAT_PERSISTENT)]          # the same without any qualifier
NS = len(S)
E = ["urn:idp:one", "urn:idp:two"]
INFO = [{"ava": {"givenName": ["Alice"], "mail": ["a@one"]}, "tag": "A"},
        {"ava": {"mail": ["a@two"], "sn": ["Smith"]}, "tag": "B"},
        {"ava": {"givenName": ["Mallory"]}, "tag": "C"},
        {"ava": {"title": ["dr"]}, "tag": "D"}]
# op codes: (kind, subject, source, info, expiry slot)
OPS = [("set", 0, 0, 0, 0), ("set", 0, 1, 1, 1), ("set", 1, 0, 2, 2), ("set", 0, 0, 3, 1),
       ("reset", 0, 0), ("reset", 0, 1), ("delete", 0), ("delete", 1), ("set", 1, 1, 3, 0),
       ("identity", 0), ("tick",), ("set", 2, 0, 2, 0), ("delete", 2)]
NOPS = len(OPS)


def _apply(cache, model, op, exps, clock, stored=None):
    stored = stored or exps
    kind = op[0]
    if kind == "identity":
        # a read in the middle of the history must not change what is stored
        cache.get_identity(S[op[1]], None, True)
        return
    if kind == "tick":
        from veriflib import timemodel
        clock["now"] = clock["later"]
        timemodel.ENV["now"] = clock["later"]
        return
    if kind == "set":
        _, s, e, i, x = op
        cache.set(S[s], E[e], copy.deepcopy(INFO[i]), stored[x])     # the oracle keeps the pristine INFO
        model.setdefault(s, {})[e] = (exps[x], i)
    elif kind == "reset":
        _, s, e = op
        cache.reset(S[s], E[e])
        model.setdefault(s, {})[e] = (0, None)
    elif kind == "delete":
        _, s = op
        try:
            cache.delete(S[s])
        except KeyError:
            pass
        model.pop(s, None)


def history(o1: int, o2: int, o3: int, o4: int, n: int, now: int, x0: int, x1: int, x2: int, check: bool, later: int = 0, as_text: bool = False):
    """A history of n operations (store / overwrite / reset / delete over two subjects that differ
    in one NameID field and two sources, with three symbolic expiry instants), followed by a
    battery of queries compared with a reference model under a symbolic clock."""
    ck = Clock(now)
    ops = [OPS[concrete(o)] for o in (o1, o2, o3, o4)][:concrete(n)]
    exps = (x0, x1, x2)
    # the expiry as the client stores it: epoch seconds, or (as_text) the xs:dateTime text of the assertion
    stored = tuple(ck.stamp(i + 1, v) for i, v in enumerate(exps)) if concrete(as_text) else exps
    cache = Cache()
    model = {}
    clock = {"now": now, "later": later if later >= now else now}
    for op in ops:
        _apply(cache, model, op, exps, clock, stored)
    now = clock["now"]
    ok = True
    for s in range(NS):
        stored = model.get(s, {})
        live = {}
        stale = []
        for e, (exp, i) in stored.items():
            if (i is not None) and ((not check) or (now <= exp)):
                live[e] = i
            else:
                stale.append(E[e])
        # --- get_identity: union over live sources of the same subject only
        want = {}
        for e, i in live.items():
            for k, v in INFO[i]["ava"].items():
                want.setdefault(k, set()).update(v)
        ident, old = cache.get_identity(S[s], None, check)
        ok = ok and (dict((k, set(v)) for k, v in ident.items()) == want) and (sorted(old) == sorted(stale))
        for e in (0, 1):
            # --- get: info of a live source, ToOld / nothing otherwise
            got = None
            kind = "ok"
            try:
                got = cache.get(S[s], E[e], check)
            except ToOld:
                kind = "old"
            except KeyError:
                kind = "missing"
            if e in live:
                ok = ok and (kind == "ok") and (got is not None) and (got.get("tag") == INFO[live[e]]["tag"])
            elif e in stored:
                ok = ok and ((kind == "old") or (got is None))
            else:
                ok = ok and (kind == "missing")
            # --- active: stored, not reset, not expired (expiry checking always on here)
            exp_i = stored.get(e)
            want_active = (exp_i is not None) and (exp_i[1] is not None) and (now <= exp_i[0])
            ok = ok and (bool(cache.active(S[s], E[e])) == want_active)
        # --- entities: every source stored for the subject
        try:
            ents = sorted(cache.entities(S[s]))
        except KeyError:
            ents = []
        ok = ok and (ents == sorted(E[e] for e in stored))
    # --- subjects: exactly those with anything stored
    subs = sorted(code(x) for x in cache.subjects())
    ok = ok and (subs == sorted(code(S[s]) for s in model))
    return ok, True, "ops=%r" % (ops,)


CONDITIONS = [
    Cond(name="history", fn="history",
         params=[("o1", "int"), ("o2", "int"), ("o3", "int"), ("o4", "int"), ("n", "int"), ("now", "int"),
                 ("x0", "int"), ("x1", "int"), ("x2", "int"), ("check", "bool"), ("later", "int"), ("as_text", "bool")],
         pre=["0 <= o1 < %d" % NOPS, "0 <= o2 < %d" % NOPS, "0 <= o3 < %d" % NOPS, "0 <= o4 < %d" % NOPS, "1 <= n <= 4",
              "1 <= now <= 1000000", "1 <= later <= 1000000", "1 <= x0 <= 1000000", "1 <= x1 <= 1000000", "1 <= x2 <= 1000000"],
         partitions={"quick": [{"n": 2, "o3": 0, "o4": 0, "o1": a, "o2": b, "as_text": (a + b) % 2 == 1} for a in range(NOPS) for b in (0, 1, 2, 4, 6, 9, 11)] +
                              [{"n": 3, "o4": 0, "o1": a, "o2": b, "o3": c, "check": True} for (a, b) in ((0, 1), (3, 2)) for c in range(NOPS)] +
                              [{"n": 4, "o1": 0, "o2": 1, "o3": 9, "o4": d, "check": True} for d in (4, 5, 3, 10)] +
                              [{"n": 4, "o1": 1, "o2": 0, "o3": 9, "o4": d, "check": True} for d in (4, 5, 10)],
                     "thorough": [{"n": 3, "o4": 0, "o1": a, "o2": b, "o3": c, "as_text": (a + b + c) % 2 == 1} for a in range(NOPS) for b in range(NOPS) for c in range(NOPS)
                                  if (a + 2 * b + 3 * c) % 4 == 0] +
                                 [{"n": 4, "o1": a, "o2": b, "o3": c, "o4": d, "check": True} for (a, b) in ((0, 1), (1, 0), (3, 2)) for c in (4, 5, 9, 10) for d in (4, 5, 3, 10)]},
         timeout={"quick": 600, "thorough": 1800}, path_timeout=60,
         functions=["cache.Cache.set/get/get_identity/reset/delete/active/entities/subjects", "time_util.after/before/not_on_or_after", "ident.code/decode"],
         bounds="histories of 2 and (sampled first two ops) 3 operations in quick, every fourth 3-op history and sampled 4-op histories in thorough (a partition with a free third operation does not finish in 30 min), over 13 operation codes "
                "(store from two sources for three subjects - two differing in one NameID field, one lacking it -, overwrite, reset, delete, a get_identity read in mid-history, "
                "a clock tick to a later symbolic instant); three symbolic expiry instants (stored as epoch seconds or as xs:dateTime text) and a symbolic clock in [1, 10^6] "
                "(z3 decides every ordering incl. ties); expiry checking on/off"),
]

ASSUMPTIONS = [
    "in-memory cache only: the file-backed variant is shelve/dbm I/O and outside the claim",
    "expiry value 0 is the reset marker and is excluded from stored information (expiries >= 1)",
    "integer clock model (gmtime() = (now,)); AST cuts 1-4",
    "reference model written from the statement: a source is live iff stored, not reset and (checking off or now <= expiry)",
]
