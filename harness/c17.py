"""C17 - encrypted assertions stay confidential and are validated like plain ones."""
from harness import fixtures as F
from harness.idpfix import IdPFixture
from harness.spfix import SPFixture, build_docs, b64, NOW, AID, RID, TOKEN
from harness.common import mk_assertion, mk_response, REQ_ID
from veriflib.boot import Clock, concrete
from veriflib.runner import Cond
from saml2_tophat import saml, samlp
from saml2_tophat import xmlenc as xenc
from saml2_tophat.sigver import pre_signature_part

IDP = IdPFixture([F.sp_conf(), F.sp_conf(entityid=F.SP2_ID, acs_post=F.ACS2_POST, acs_redirect=None, enc=False)])
SENTINELS = ["SENTINEL-GIVEN", "SENTINEL-SURNAME", "SENTINEL-NAMEID", "SENTINEL-ADVICEVALUE"]
IDENTITY = {"givenName": ["SENTINEL-GIVEN"], "surName": ["SENTINEL-SURNAME"]}
AUTHN = {"class_ref": "urn:oasis:names:tc:SAML:2.0:ac:classes:Password", "authn_auth": "http://idp.example.com/login"}


def idp_side(sign_response: bool, sign_assertion: bool, encrypt: bool, self_contained: bool, advice: bool,
             sp_has_cert: bool, tool_fails: bool):
    """No subject identifier / attribute value of an assertion the IdP was asked to encrypt
    appears outside the ciphertext token in what create_authn_response returns."""
    IDP.reset()
    IDP.backend.fail_encrypt = tool_fails
    Clock(NOW)
    sp = F.SP_ID if sp_has_cert else F.SP2_ID
    dest = F.ACS_POST if sp_has_cert else F.ACS2_POST
    nid = saml.NameID(format=saml.NAMEID_FORMAT_PERSISTENT, text="SENTINEL-NAMEID")
    exc = None
    out = None
    try:
        out = IDP.server.create_authn_response(
            IDENTITY, "id-req1", dest, sp, name_id=nid, authn=AUTHN,
            sign_response=sign_response, sign_assertion=sign_assertion, encrypt_assertion=encrypt,
            encrypt_assertion_self_contained=self_contained, encrypted_advice_attributes=False, pefim=advice)
    except Exception as e:
        exc = e
    text = None if out is None else "%s" % out
    ok = True
    attrs_clear = False
    nid_clear = False
    if text is not None:
        attrs_clear = ("SENTINEL-GIVEN" in text) | ("SENTINEL-SURNAME" in text)
        nid_clear = "SENTINEL-NAMEID" in text
    if encrypt & sp_has_cert:
        # asked to encrypt the assertion for an SP with an encryption certificate: either an error, or nothing in clear
        ok = (text is None) or ((not attrs_clear) & (not nid_clear) & (len(IDP.backend.encrypted_for) >= 1) & ("CipherValue" in text))
        if tool_fails:
            ok = ok & (text is None)
    elif advice & sp_has_cert:
        # PEFIM: the attributes travel in an advice assertion that was to be encrypted; the subject
        # identifier stays in the (unencrypted) outer assertion
        ok = (text is None) or ((not attrs_clear) & (len(IDP.backend.encrypted_for) >= 1))
        if tool_fails:
            ok = ok & (text is None)
    elif not encrypt and not advice:
        ok = (text is not None) & attrs_clear & nid_clear          # liveness of the harness: plain responses carry the identity
    return ok, (text is not None) | tool_fails | (exc is not None), "text=%s exc=%r enc_for=%d" % (None if text is None else len(text), exc, len(IDP.backend.encrypted_for))


def _cert_body(path):
    txt = open(path).read()
    return "".join(l for l in txt.splitlines() if "CERTIFICATE" not in l)


import os                                                         # noqa: E402
CERT_MD = _cert_body(os.path.join(F.FX, "test_1.crt"))          # the SP's (first) encryption certificate in metadata
CERT_REQ = _cert_body(os.path.join(F.FX, "test_2.crt"))         # a certificate supplied with the request
CERT_OTHER = _cert_body(os.path.join(F.FX, "test.pem"))


def idp_two_calls(first: int, second: int, self_contained: bool):
    """Two encrypted responses for the same SP on one long-lived IdP object, each asking for a
    particular recipient certificate (0: the one from metadata, 1 / 2: certificates supplied with
    the request): each response is encrypted for the certificate requested in *that* call."""
    from veriflib.stubs import FakeTemp
    first, second, self_contained = concrete(first), concrete(second), concrete(self_contained)
    Clock(NOW)
    nid = saml.NameID(format=saml.NAMEID_FORMAT_PERSISTENT, text="SENTINEL-NAMEID")
    certs = [None, CERT_REQ, CERT_OTHER]
    want = [CERT_MD, CERT_REQ, CERT_OTHER]
    ok = True
    seen = []
    for which in (first, second):
        IDP.reset()
        FakeTemp.REG.clear()
        try:
            out = IDP.server.create_authn_response(IDENTITY, "id-req1", F.ACS_POST, F.SP_ID, name_id=nid, authn=AUTHN,
                                                   sign_response=False, sign_assertion=False, encrypt_assertion=True,
                                                   encrypt_assertion_self_contained=self_contained, encrypt_cert_assertion=certs[which])
        except Exception as e:
            return False, True, "raised %r" % e
        used = IDP.backend.encrypted_for
        body = ""
        if used:
            c = FakeTemp.REG.get(used[-1])
            raw = c.content if c is not None else b""
            raw = raw.decode("ascii") if isinstance(raw, bytes) else raw
            body = "".join(l for l in raw.splitlines() if "CERTIFICATE" not in l)
        seen.append(body[:12])
        ok = ok and (len(used) == 1) and (body == want[which]) and ("SENTINEL-GIVEN" not in ("%s" % out))
    return ok, True, "recipients=%r" % (seen,)


# ----------------------------------------------------------------------------------- SP side
SP = SPFixture()
_CK = SP.clock
_T = _CK.stamp(1, NOW)
_OK = _CK.stamp(2, NOW + 600)
_PAST = _CK.stamp(3, NOW - 600)
MUT = ["none", "audience names another SP", "Conditions expired", "bearer InResponseTo names another request",
       "bearer data expired", "Conditions not yet valid", "recipient... unsolicited response id"]


def _mutated_docs():
    docs = {}
    for m in range(len(MUT)):
        for enc in (False, True):
            for signed in (False, True):
                cond = {"not_on_or_after": _OK, "audiences": [[F.SP_ID]]}
                scd = {"not_on_or_after": _OK, "in_response_to": REQ_ID, "recipient": F.ACS_POST}
                irt = REQ_ID
                if m == 1:
                    cond["audiences"] = [[F.SP2_ID]]
                elif m == 2:
                    cond["not_on_or_after"] = _PAST
                elif m == 3:
                    scd["in_response_to"] = "id-other"
                elif m == 4:
                    scd["not_on_or_after"] = _PAST
                elif m == 5:
                    cond["not_before"] = _OK
                elif m == 6:
                    irt = "id-unknown"
                    scd["in_response_to"] = "id-unknown"

                def mk(plain_inside):
                    a = mk_assertion(_T, cond, scd, {}, aid=AID, issuer=F.IDP_ID,
                                     attrs=[saml.Attribute(name="urn:oid:2.5.4.42", name_format=saml.NAME_FORMAT_URI,
                                                           friendly_name="givenName",
                                                           attribute_value=[saml.AttributeValue(text="Alice")])])
                    if signed:
                        a.signature = pre_signature_part(AID)
                    if not enc:
                        r = mk_response(_T, [a], destination=F.ACS_POST, rid=RID, issuer=F.IDP_ID, in_response_to=irt)
                    else:
                        r = mk_response(_T, [], destination=F.ACS_POST, rid=RID, issuer=F.IDP_ID, in_response_to=irt)
                        ea = saml.EncryptedAssertion()
                        if plain_inside:
                            ea.add_extension_element(a)
                        else:
                            ea.encrypted_data = xenc.EncryptedData(
                                type="http://www.w3.org/2001/04/xmlenc#Element",
                                cipher_data=xenc.CipherData(cipher_value=xenc.CipherValue(text=TOKEN)))
                        r.encrypted_assertion = [ea]
                    return "%s" % r
                docs[("m", m, enc, signed)] = (b64(mk(False)), mk(True) if enc else None)
    return docs


SP.wire.update(_mutated_docs())
KEYSETS = [None, ["test_1.key"], ["test_2.key"], [], None, None]      # which configured private keys decrypt
KEY_DECRYPTS = [True, True, True, False, False, False]                 # 4, 5: the tool hands back truncated / non-XML "plaintext"
GARBLE = [0, 0, 0, 0, 1, 2]


def sp_side(m: int, encrypted: bool, signed: bool, sig_ok: bool, keyset: int, want_ass: bool, unsol: bool):
    """A decrypted assertion passes exactly the checks a plain one passes; undecryptable content
    never yields an identity; the first or the second configured key suffices."""
    resp, exc = SP.parse(("m", m, encrypted, signed), False, want_ass, False, True, sig_ok,
                         can_decrypt=True, allow_unsolicited=unsol, good_keys=KEYSETS[keyset], garble=GARBLE[keyset])
    acc = (resp is not None) and bool(resp.ava) and (resp.name_id is not None)
    content_ok = (m == 0) | ((m == 6) & unsol)
    sig_fine = ((not signed) | sig_ok) & ((not want_ass) | signed)
    readable = (not encrypted) | KEY_DECRYPTS[keyset]
    expect = content_ok & sig_fine & readable
    ok = (acc == expect)
    if not readable:
        ok = ok & ((resp is None) or ((not resp.ava) & (resp.name_id is None)))
    return ok, acc | (not expect), "accepted=%s expected=%s exc=%r" % (acc, expect, exc)


CONDITIONS = [
    Cond(name="idp_side", fn="idp_side",
         params=[("sign_response", "bool"), ("sign_assertion", "bool"), ("encrypt", "bool"), ("self_contained", "bool"),
                 ("advice", "bool"), ("sp_has_cert", "bool"), ("tool_fails", "bool")],
         partitions={"quick": [{"advice": a, "sp_has_cert": c, "tool_fails": t} for a in (False, True) for c in (False, True) for t in (False, True)]},
         timeout={"quick": 900, "thorough": 1800}, path_timeout=120,
         functions=["server.Server.create_authn_response/_authn_response/setup_assertion/gather_authn_response_args",
                    "entity.Entity._response/_encrypt_assertion/has_encrypt_cert_in_metadata", "sigver.pre_encrypt_assertion",
                    "sigver.pre_encryption_part", "sigver.signed_instance_factory", "sigver.SecurityContext.encrypt_assertion/sign_statement",
                    "mdstore.MetadataStore.certs(use=encryption)"],
         bounds="sign_response x sign_assertion x encrypt_assertion x self-contained namespaces x PEFIM advice x {SP with / without encryption certificate} "
                "x {encryption tool works / produces nothing}; identity = three concrete sentinels (finite table, exhaustive)"),
    Cond(name="idp_two_calls", fn="idp_two_calls", params=[("first", "int"), ("second", "int"), ("self_contained", "bool")],
         pre=["0 <= first <= 2", "0 <= second <= 2"], partitions={"quick": [{"first": a, "self_contained": True} for a in range(3)]},
         timeout={"quick": 900, "thorough": 1800}, path_timeout=120,
         functions=["entity.Entity._response/_encrypt_assertion (two calls on one Server)", "server.Server.create_authn_response"],
         bounds="two consecutive encrypted responses for one SP, recipient certificate per call in {metadata, request-supplied 1, request-supplied 2}; self-contained namespaces "
                "(without them an unsigned response object is pre-encrypted twice and the tool run fails - an error, which the property allows)"),
    Cond(name="sp_side", fn="sp_side",
         params=[("m", "int"), ("encrypted", "bool"), ("signed", "bool"), ("sig_ok", "bool"), ("keyset", "int"), ("want_ass", "bool"), ("unsol", "bool")],
         pre=["0 <= m < %d" % len(MUT), "0 <= keyset < 6"],
         partitions={"quick": [{"m": m, "encrypted": e} for m in range(len(MUT)) for e in (False, True)]},
         timeout={"quick": 900, "thorough": 1800}, path_timeout=120,
         functions=["client_base.Base.parse_authn_request_response", "entity.Entity._parse_response",
                    "response.AuthnResponse.parse_assertion/decrypt_assertions/_assertion/condition_ok/get_subject/_bearer_confirmed",
                    "sigver.SecurityContext.decrypt_keys/check_signature/_check_signature"],
         bounds="7 content mutations (audience, expiry, not-yet-valid, confirmation InResponseTo, bearer expiry, unsolicited) applied inside the ciphertext "
                "and to the plain twin; assertion signed/unsigned x verdict; keys: all / first only / second only / none decrypt, decryption yielding truncated or non-XML text; want_assertions_signed; allow_unsolicited"),
]

ASSUMPTIONS = [
    "cipher by contract: encrypt_assertion replaces the node selected by the xpath with an opaque token bound to the recipient certificate; "
    "decrypt(key) restores the prepared plaintext iff the key is in the matching set, else returns ''",
    "sign_statement returns the statement unchanged (template already in place); verification verdicts per node id",
    "identity strings are concrete sentinels; documents are really serialised and parsed by the code under test",
    "integer clock model, fixed clock; AST cuts 1-4; make_temp fake",
]
