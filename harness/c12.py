"""C12 - schema element objects survive serialise/parse without loss (element-tree level)."""
from harness import schemagen as G
from veriflib.runner import Cond
import saml2_tophat
from saml2_tophat import create_class_from_element_tree, ExtensionElement, SamlBase

UNIVERSE = []
for _m in G.modules(G.ALL_MODULES):
    UNIVERSE.extend(G.classes_of(_m))
NQUICK = sum(len(G.classes_of(m)) for m in G.modules(G.QUICK_MODULES))
FOREIGN_NS = "urn:verif:foreign"


def build(cls, s1, s2, s3, mask, n, foreign, depth=0):
    """All declared attributes populated (alternating the two symbolic strings so that a swap of
    neighbouring attributes shows), text symbolic, children selected by mask (list children n
    times), optional foreign attribute and foreign child."""
    inst = cls()
    for i, (xmlname, (pyname, typ, required)) in enumerate(sorted(cls.c_attributes.items())):
        setattr(inst, pyname, s1 if i % 2 == 0 else s2)
    inst.text = s3
    if depth < 1:
        for i, (tag, (pyname, spec)) in enumerate(sorted(cls.c_children.items())):
            if (mask >> (i % 6)) & 1:
                ccls = G.child_class(spec)
                if isinstance(spec, list):
                    setattr(inst, pyname, [build(ccls, s2, s1, "c%d" % j, 0, 1, False, depth + 1) for j in range(n)])
                else:
                    setattr(inst, pyname, build(ccls, s2, s1, "c", 0, 1, False, depth + 1))
    if foreign:
        inst.extension_attributes["{%s}fa" % FOREIGN_NS] = s3
        inst.extension_elements.append(ExtensionElement(
            "fchild", namespace=FOREIGN_NS, text=s1, attributes={"k": s2},
            children=[ExtensionElement("g1", namespace=FOREIGN_NS, text=s2),
                      ExtensionElement("g2", namespace=FOREIGN_NS, attributes={"a": s1},
                                       children=[ExtensionElement("h1", namespace=FOREIGN_NS), ExtensionElement("h2", namespace=FOREIGN_NS, text=s3)]),
                      ExtensionElement("g3", namespace=FOREIGN_NS)]))
    return inst


def same(a, b):
    """Generic structural comparison (never a hand-written expectation)."""
    if type(a) is not type(b):
        return False
    if isinstance(a, ExtensionElement):
        if (a.tag != b.tag) or (a.namespace != b.namespace) or (a.text != b.text) or (a.attributes != b.attributes):
            return False
        if len(a.children) != len(b.children):
            return False
        return all(same(x, y) for x, y in zip(a.children, b.children))
    cls = type(a)
    for xmlname, (pyname, typ, required) in cls.c_attributes.items():
        if getattr(a, pyname) != getattr(b, pyname):
            return False
    if a.text != b.text:
        return False
    for tag, (pyname, spec) in cls.c_children.items():
        x, y = getattr(a, pyname), getattr(b, pyname)
        if isinstance(spec, list):
            x, y = x or [], y or []
            if len(x) != len(y):
                return False
            for p, q in zip(x, y):
                if not same(p, q):
                    return False
        else:
            if (x is None) != (y is None):
                return False
            if x is not None and not same(x, y):
                return False
    if (a.extension_attributes or {}) != (b.extension_attributes or {}):
        return False
    ea, eb = a.extension_elements or [], b.extension_elements or []
    if len(ea) != len(eb):
        return False
    return all(same(x, y) for x, y in zip(ea, eb))


def tree_equal(t, u):
    if t.tag != u.tag or t.text != u.text or dict(t.attrib) != dict(u.attrib) or len(t) != len(u):
        return False
    return all(tree_equal(x, y) for x, y in zip(list(t), list(u)))


def order_ok(cls, tree):
    """Known children appear in the class's declared sequence order."""
    order = list(cls.c_child_order)
    tag2name = dict((tag, v[0]) for tag, v in cls.c_children.items())
    idx = []
    for ch in tree:
        name = tag2name.get(ch.tag)
        if name is not None and name in order:
            idx.append(order.index(name))
    return all(idx[i] <= idx[i + 1] for i in range(len(idx) - 1))


def roundtrip(ci: int, s1: str, s2: str, s3: str, mask: int, n: int, foreign: bool):
    cls = UNIVERSE[ci]
    inst = build(cls, s1, s2, s3, mask, n, foreign)
    tree = inst._to_element_tree()
    back = create_class_from_element_tree(cls, tree)
    ok = (back is not None) and same(inst, back)
    if ok:
        ok = order_ok(cls, tree) and tree_equal(tree, back._to_element_tree())
    if ok and foreign:
        # unknown content was kept as extension content, not dropped
        ok = (len(back.extension_elements) == 1) and (("{%s}fa" % FOREIGN_NS) in back.extension_attributes)
    return ok, True, "class=%s" % cls.__name__


# (base type, derived element) pairs where the derived class declares children the base does not:
# serialising the base first must not influence how the derived class is serialised afterwards
PAIRS = []
for _i, _c in enumerate(UNIVERSE):
    for _b in _c.__mro__[1:]:
        if _b in UNIVERSE and set(_c.c_children) - set(_b.c_children):
            PAIRS.append((UNIVERSE.index(_b), _i))
            break
NPQ = len([p for p in PAIRS if p[1] < NQUICK])


def after_base(pi: int, s1: str, s2: str, s3: str, mask: int):
    """History in one process: serialise and parse an instance of a base type, then round-trip an
    instance of a class derived from it."""
    from veriflib.boot import concrete
    b, d = PAIRS[concrete(pi)]
    r1 = roundtrip(b, s1, s2, s3, mask, 1, False)
    r2 = roundtrip(d, s2, s1, s3, 63, 2, True)
    return r1[0] and r2[0], True, "base=%s derived=%s" % (UNIVERSE[b].__name__, UNIVERSE[d].__name__)


def _parts(idx):
    return [{"ci": i} for i in idx]


CONDITIONS = [
    Cond(name="roundtrip", fn="roundtrip",
         params=[("ci", "int"), ("s1", "str"), ("s2", "str"), ("s3", "str"), ("mask", "int"), ("n", "int"), ("foreign", "bool")],
         pre=["len(s1) <= 3", "len(s2) <= 3", "1 <= len(s3) <= 3", "0 <= mask < 64", "1 <= n <= 2"],
         partitions={"quick": _parts(range(NQUICK)), "thorough": _parts(range(len(UNIVERSE)))},
         timeout={"quick": 300, "thorough": 600}, path_timeout=60,
         functions=["SamlBase._to_element_tree", "SamlBase._add_members_to_element_tree", "SamlBase.become_child_element_of", "SamlBase._get_all_c_children_with_order",
                    "saml2_tophat.create_class_from_element_tree", "SamlBase.harvest_element_tree", "SamlBase._convert_element_tree_to_member",
                    "SamlBase._convert_element_attribute_to_member", "ExtensionElement.become_child_element_of/_to_element_tree/harvest_element_tree",
                    "the generated c_children / c_attributes / c_child_order tables of every schema class"],
         bounds="per class: every declared attribute populated with two symbolic strings (<= 3 chars, alternating), symbolic text, every subset (6-bit mask) of declared children "
                "present, list children 1-2 times, one level of nesting, foreign attribute and a foreign child (itself with three children, one of them nested two deep) present/absent. quick: saml, samlp, md, xmldsig, xmlenc (281 classes); "
                "thorough: all schema modules"),
]

CONDITIONS.append(
    Cond(name="after_base", fn="after_base", params=[("pi", "int"), ("s1", "str"), ("s2", "str"), ("s3", "str"), ("mask", "int")],
         pre=["len(s1) <= 2", "len(s2) <= 2", "1 <= len(s3) <= 2", "0 <= mask < 64"],
         partitions={"quick": [{"pi": i, "mask": 21} for i in range(0, NPQ, 2)], "thorough": [{"pi": i} for i in range(len(PAIRS))]},
         timeout={"quick": 300, "thorough": 600}, path_timeout=60,
         functions=["SamlBase._get_all_c_children_with_order", "SamlBase._to_element_tree", "saml2_tophat.create_class_from_element_tree"],
         bounds="two-step histories: for (base type, derived element) pairs whose derived class adds children (%d pairs; quick: every second pair of the core modules), "
                "serialise the base, then round-trip the derived class with all children present" % len(PAIRS)))

MODS = sorted(set(c.__module__ for c in UNIVERSE[NQUICK:]))


def smoke(mi: int, mask: int):
    """Every class of one non-core schema module with concrete strings (quick-tier stand-in for
    the per-class symbolic condition, which runs for these modules in the thorough tier)."""
    from veriflib.boot import concrete
    mi, mask = concrete(mi), concrete(mask)
    idx = [i for i in range(NQUICK, len(UNIVERSE)) if UNIVERSE[i].__module__ == MODS[mi]]
    bad = []
    for i in idx:
        try:
            r = roundtrip(i, "a&", "<b", "c\"", [0, 21, 42, 63][mask], 2, True)
        except Exception as e:
            r = (False, True, "%s raised %r" % (UNIVERSE[i].__name__, e))
        if not r[0]:
            bad.append(r[2])
    return len(bad) == 0, True, "; ".join(bad[:5]) or "ok"


CONDITIONS.append(
    Cond(name="smoke", fn="smoke", params=[("mi", "int"), ("mask", "int")],
         pre=["0 <= mi < %d" % len(MODS), "0 <= mask <= 3"],
         partitions={"quick": [{"mi": m} for m in range(len(MODS))]}, tiers=("quick",),
         timeout={"quick": 600}, path_timeout=60,
         functions=["SamlBase._to_element_tree", "saml2_tophat.create_class_from_element_tree", "class tables of the extension / schema / ws / profile / authn_context modules"],
         bounds="every class of the %d non-core schema modules, concrete strings, 4 child masks" % len(MODS)))

ASSUMPTIONS = [
    "element-tree level only: ElementTree.tostring / expat (C) are outside the claim - 'serialising again gives identical text' is decided as 'gives an equal tree'",
    "element text is non-empty: an empty text node and an absent one are the same XML, so '' vs None is not a difference the statement can mean "
    "(AttributeValue, whose constructor marks text-less values xsi:nil, is the one class where it shows; empty attribute values are C08's subject)",
    "comparison is a generic structural recursion over the class tables (same()), not a per-class expectation",
    "AST cuts 1-4",
]
