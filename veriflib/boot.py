"""One-call setup used by every harness module.

model mode  (default): cut loader + integer clock model + I/O stubs; run under CrossHair.
replay mode (VERIF_REPLAY=1): uncut code from /repo/src, real time functions with only `now`
frozen, same I/O stubs; plain interpreter.
"""
import os
import sys
import warnings

_done = {}
REPLAY = os.environ.get("VERIF_REPLAY") == "1"


def install(clock=True, stubs=True):
    warnings.filterwarnings("ignore")
    import logging
    logging.disable(logging.CRITICAL)
    if "cut" not in _done:
        if os.environ.get("VERIF_NO_CUT") != "1" and not REPLAY:
            from veriflib import cutloader
            cutloader.install()
        else:
            src = os.environ.get("VERIF_REPO_SRC", "/repo/src")
            if src not in sys.path:
                sys.path.insert(0, src)
        _done["cut"] = True
    if clock and "clock" not in _done:
        from veriflib import timemodel
        if REPLAY:
            timemodel.install_real()
        else:
            timemodel.install()
        _done["clock"] = True
    if stubs and "stubs" not in _done:
        from veriflib import stubs as st
        st.install()
        _done["stubs"] = True


class Clock:
    """Per-path clock setup.  stamp(i, value) returns the timestamp text to put into a message
    for instant number i: in model mode a fixed canonical-looking token resolved through the
    table (so the value stays a symbolic int), in replay mode the real rendering of `value`."""

    def __init__(self, now, tz_hours=0):
        from veriflib import timemodel
        self.tm = timemodel
        self.tab = {}
        timemodel.set_clock(now, self.tab, tz_hours * 3600)

    def stamp(self, i, value, spelling=0):
        if REPLAY:
            s = self.tm.real_stamp(value)
        else:
            s = "20%02d-01-01T00:00:00Z" % i
            self.tab[s] = value
        if spelling == 1:      # fractional seconds
            s = s[:-1] + ".25Z"
        elif spelling == 2:    # no trailing Z (with fraction, which the fallback regex admits)
            s = s[:-1] + ".5"
        return s


def concrete(x):
    """Force a symbolic index/flag to a concrete value on this path (CrossHair forks on it and
    explores the other values on other paths).  Identity outside CrossHair."""
    try:
        from crosshair import realize
        return realize(x)
    except Exception:
        return x


def untraced():
    """Context manager: run oracle-side standard-library readers on concrete data without
    CrossHair's tracing overhead (the code under test is never inside it)."""
    try:
        from crosshair.tracers import NoTracing, is_tracing
        if is_tracing():
            return NoTracing()
    except Exception:
        pass
    import contextlib
    return contextlib.nullcontext()
