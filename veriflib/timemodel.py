"""Integer model of the C-level clock / time conversion used by saml2_tophat.

An instant is a 1-tuple (epoch,).  Timestamps are spelled "@<token>" and resolved through
ENV["tab"] (token -> symbolic int) or as "@<int>".  Any other spelling raises ValueError, which
sends time_util.str_to_time into its real regex fallback (and from there to ValueError again).
Contract assumed for the replaced C functions: strictly monotone bijection between canonical UTC
timestamps and epoch seconds at 1 s resolution.
"""
from datetime import timedelta as _td


class T(tuple):
    pass


# An instant is (epoch, isdst): the C functions differ in the tm_isdst they report (gmtime: 0,
# strptime and datetime.timetuple(): -1) and struct_time comparison sees it at equal seconds.
# "tz" = seconds east of UTC of the process's local time zone (mktime/localtime only).
ENV = {"now": 1000000, "tab": None, "tz": 0}


class FakeTime:
    def gmtime(self, secs=None):
        return T((ENV["now"] if secs is None else secs, 0))

    def time(self):
        return ENV["now"]

    def strptime(self, s, fmt):
        tab = ENV.get("tab")
        if tab is not None and isinstance(s, str) and s in tab:
            return T((tab[s], -1))
        if not (isinstance(s, str) and s[:1] == "@"):
            raise ValueError("time data does not match format")
        return T((int(s[1:]), -1))

    def strftime(self, fmt, t=None):
        e = ENV["now"] if t is None else t[0]
        return "@" + str(e)

    def mktime(self, t):
        # interprets the broken-down time as *local* time
        return t[0] - ENV["tz"]

    def localtime(self, s=None):
        e = ENV["now"] if s is None else s
        return T((e + ENV["tz"], 0))


class FakeCal:
    def timegm(self, t):
        return t[0]


class FakeDT:
    def __init__(self, e):
        self.e = e

    def __add__(self, d):
        return FakeDT(self.e + d.days * 86400 + d.seconds)

    def __sub__(self, d):
        return FakeDT(self.e - d.days * 86400 - d.seconds)

    def timetuple(self):
        return T((self.e, -1))

    def utctimetuple(self):
        return T((self.e, 0))

    def strftime(self, fmt):
        return "@" + str(self.e)


class FakeDTcls:
    def utcnow(self):
        return FakeDT(ENV["now"])

    def now(self, tz=None):
        return FakeDT(ENV["now"])


def install():
    """Replace time/calendar/datetime as bound inside the modules that consult the clock."""
    import importlib
    ft, fc = FakeTime(), FakeCal()
    from saml2_tophat import time_util
    time_util.time = ft
    time_util.calendar = fc
    time_util.datetime = FakeDTcls()
    time_util.timedelta = _td
    for name in ("validate", "response", "sigver", "cache", "mdstore", "request", "entity",
                 "assertion", "server", "client_base", "ident"):
        try:
            m = importlib.import_module("saml2_tophat." + name)
        except Exception:
            continue
        if "time" in m.__dict__ and getattr(m.__dict__["time"], "__name__", "") == "time":
            m.time = ft
        if "calendar" in m.__dict__ and getattr(m.__dict__["calendar"], "__name__", "") == "calendar":
            m.calendar = fc


def set_clock(now, tab=None, tz=0):
    ENV["now"] = now
    ENV["tab"] = tab
    ENV["tz"] = tz
    if _REAL["installed"]:
        # replay mode: the real C functions with a real time zone of that offset
        import os
        h = tz // 3600
        os.environ["TZ"] = "VRF%+d" % (-h) if h else "UTC"
        _rt.tzset()


# --------------------------------------------------------------------------------------------
# Replay mode: the real C functions with only "now" frozen (plain interpreter, uncut code).
import time as _rt
import calendar as _rc
import datetime as _rd


class FrozenTime:
    """The real `time` module with gmtime()/time()/localtime() frozen at ENV['now']."""

    def __getattr__(self, k):
        return getattr(_rt, k)

    def gmtime(self, secs=None):
        return _rt.gmtime(ENV["now"] if secs is None else secs)

    def localtime(self, secs=None):
        return _rt.localtime(ENV["now"] if secs is None else secs)

    def mktime(self, t):
        return _rt.mktime(t)

    def time(self):
        return float(ENV["now"])

    def strftime(self, fmt, t=None):
        return _rt.strftime(fmt, self.gmtime() if t is None else t)


class FrozenDT:
    def utcnow(self):
        return _rd.datetime(1970, 1, 1) + _rd.timedelta(seconds=ENV["now"])

    def now(self, tz=None):
        return self.utcnow()

    def __call__(self, *a, **k):
        return _rd.datetime(*a, **k)


_REAL = {"installed": False}


def install_real():
    import importlib
    _REAL["installed"] = True
    ft = FrozenTime()
    from saml2_tophat import time_util
    time_util.time = ft
    time_util.datetime = FrozenDT()
    for name in ("validate", "response", "sigver", "cache", "mdstore", "request", "entity",
                 "assertion", "server", "client_base", "ident"):
        try:
            m = importlib.import_module("saml2_tophat." + name)
        except Exception:
            continue
        if "time" in m.__dict__ and getattr(m.__dict__["time"], "__name__", "") == "time":
            m.time = ft


TOKENS = {}


def real_stamp(value):
    return _rt.strftime("%Y-%m-%dT%H:%M:%SZ", _rt.gmtime(value))
