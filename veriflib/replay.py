"""python -m veriflib.replay <harness module> <condition> '<json args>'

Re-executes a condition concretely (plain interpreter, uncut /repo code, real time functions with
a frozen now).  Prints `REPLAY {json}` with status violates / holds / error.
"""
import importlib
import json
import sys
import traceback


def main():
    module, cond, args = sys.argv[1], sys.argv[2], json.loads(sys.argv[3])
    h = importlib.import_module(module)
    c = [c for c in h.CONDITIONS if c.name == cond][0]
    fn = getattr(h, c.fn)
    try:
        r = fn(**args)
        ok, reached = bool(r[0]), bool(r[1])
        detail = r[2] if len(r) > 2 else ""
        out = {"status": "holds" if ok else "violates", "reached": reached, "detail": str(detail)}
    except Exception as e:   # conditions catch what the code under test may raise: this is a harness error
        out = {"status": "harness_exception", "reached": True,
               "detail": "exception %s: %s\n%s" % (type(e).__name__, e, traceback.format_exc()[-600:])}
    print("REPLAY " + json.dumps(out))


if __name__ == "__main__":
    main()
