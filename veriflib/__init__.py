"""Verification support library for solver-based checking of /repo (saml2_tophat)."""
