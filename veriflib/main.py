"""Entry point: python -m veriflib.main <Cxx> [--tier quick|thorough] [--replay path] [--only cond]"""
import argparse
import importlib
import json
import os
import sys

from veriflib import runner


def main():
    ap = argparse.ArgumentParser()
    ap.add_argument("prop")
    ap.add_argument("--tier", default=os.environ.get("VERIF_TIER", "quick"))
    ap.add_argument("--replay")
    ap.add_argument("--only", action="append")
    ap.add_argument("--call", nargs=2, metavar=("COND", "JSONARGS"), help="run one condition concretely (replay mode)")
    a = ap.parse_args()
    seed = int(os.environ.get("VERIF_SEED", "0") or 0)
    prop = a.prop.upper()
    module = "harness.%s" % prop.lower()
    if a.call:
        print(json.dumps(runner.replay(module, a.call[0], json.loads(a.call[1])), indent=1))
        sys.exit(0)
    if a.replay:
        d = json.load(open(a.replay))
        if d.get("kind") == "custom":
            h = importlib.import_module(d["module"])
            rp = h.replay_custom(d)
        else:
            rp = runner.replay(d["module"], d["condition"], d["args"])
        print(json.dumps(rp, indent=1))
        if rp.get("status") == "violates":
            print("VIOLATION property=%s replay=%s" % (prop, a.replay))
            sys.exit(1)
        sys.exit(0)
    h = importlib.import_module(module)
    if hasattr(h, "run"):
        code = h.run(a.tier, seed, only=a.only)
    else:
        conds = h.CONDITIONS
        if a.only:
            conds = [c for c in conds if c.name in a.only]
        code, _ = runner.run_property(prop, module, conds, a.tier, seed,
                                      assumptions=getattr(h, "ASSUMPTIONS", []))
    sys.exit(code)


if __name__ == "__main__":
    main()
