"""Import hook: compile saml2_tophat.* from /repo source on every run through an AST transformer.

Cuts (each is part of every claim made with this loader; see DESIGN.md section 2):
 1. logger.<level>(...), _log_info(...), _log_debug(...) expression statements -> pass
 2. inside `raise X(args)`: a %-format / .format / f-string argument -> its constant template
 3. elsewhere "<tmpl>" % args with only %s/%d specs -> "a" + str(x) + "b" (never emits "" operands)
 4. bare `except:` / `except BaseException:` -> `except Exception:`
"""
import ast
import builtins
import importlib.abc
import importlib.machinery
import os
import re
import sys

REPO_SRC = os.environ.get("VERIF_REPO_SRC", "/repo/src")
LOGN = {"logger", "_log_info", "_log_debug", "logging"}
STATS = {"log": 0, "raise_fmt": 0, "mod": 0, "except": 0, "modules": 0}


class Cut(ast.NodeTransformer):
    def visit_Expr(self, node):
        v = node.value
        if isinstance(v, ast.Call):
            f = v.func
            if (isinstance(f, ast.Attribute) and isinstance(f.value, ast.Name)
                    and f.value.id in LOGN):
                STATS["log"] += 1
                return ast.copy_location(ast.Pass(), node)
            if isinstance(f, ast.Name) and f.id in LOGN:
                STATS["log"] += 1
                return ast.copy_location(ast.Pass(), node)
        return self.generic_visit(node)

    def visit_BinOp(self, node):
        self.generic_visit(node)
        if (isinstance(node.op, ast.Mod) and isinstance(node.left, ast.Constant)
                and isinstance(node.left.value, str)):
            tmpl = node.left.value
            specs = re.findall(r'%(.)', tmpl)
            if specs and all(c in 'sd' for c in specs):
                args = node.right.elts if isinstance(node.right, ast.Tuple) else [node.right]
                if len(args) == len(specs):
                    parts = re.split(r'%[sd]', tmpl)
                    terms = [ast.Constant(parts[0])] if parts[0] else []
                    for a, p in zip(args, parts[1:]):
                        terms.append(ast.Call(ast.Name('_vf_str', ast.Load()), [a], []))
                        if p:
                            terms.append(ast.Constant(p))
                    expr = terms[0]
                    for t in terms[1:]:
                        expr = ast.BinOp(expr, ast.Add(), t)
                    STATS["mod"] += 1
                    return ast.copy_location(expr, node)
        return node

    def visit_ExceptHandler(self, node):
        self.generic_visit(node)
        if node.type is None or (isinstance(node.type, ast.Name)
                                 and node.type.id == 'BaseException'):
            node.type = ast.copy_location(ast.Name('Exception', ast.Load()), node)
            STATS["except"] += 1
        return node

    def visit_Raise(self, node):
        if isinstance(node.exc, ast.Call):
            node.exc.args = [self._flat(a) for a in node.exc.args]
        return node

    def _flat(self, a):
        if (isinstance(a, ast.BinOp) and isinstance(a.op, ast.Mod)
                and isinstance(a.left, ast.Constant) and isinstance(a.left.value, str)):
            STATS["raise_fmt"] += 1
            return ast.copy_location(ast.Constant(a.left.value), a)
        if (isinstance(a, ast.Call) and isinstance(a.func, ast.Attribute)
                and a.func.attr == "format" and isinstance(a.func.value, ast.Constant)):
            STATS["raise_fmt"] += 1
            return ast.copy_location(ast.Constant(a.func.value.value), a)
        if isinstance(a, ast.JoinedStr):
            STATS["raise_fmt"] += 1
            return ast.copy_location(ast.Constant("fstr"), a)
        return a


class _Loader(importlib.machinery.SourceFileLoader):
    def source_to_code(self, data, path, *, _optimize=-1):
        import warnings
        with warnings.catch_warnings():
            warnings.simplefilter("ignore")
            tree = ast.parse(data, path)
            tree = Cut().visit(tree)
            ast.fix_missing_locations(tree)
            STATS["modules"] += 1
            return compile(tree, path, "exec", dont_inherit=True, optimize=_optimize)

    def get_code(self, fullname):
        data = self.get_data(self.path)
        return self.source_to_code(data, self.path)


class _Finder(importlib.abc.MetaPathFinder):
    def find_spec(self, name, path, target=None):
        if not (name == "saml2_tophat" or name.startswith("saml2_tophat.")):
            return None
        if name == "saml2_tophat":
            path = [REPO_SRC]
        spec = importlib.machinery.PathFinder.find_spec(name, path)
        if spec and isinstance(spec.loader, importlib.machinery.SourceFileLoader):
            spec.loader = _Loader(spec.loader.name, spec.loader.path)
        return spec


def _vf_str(x):
    return x if isinstance(x, str) else str(x)


_installed = False


def install():
    global _installed
    if _installed:
        return
    for m in list(sys.modules):
        if m == "saml2_tophat" or m.startswith("saml2_tophat."):
            raise RuntimeError("cutloader.install() after saml2_tophat import: " + m)
    builtins.__dict__['_vf_str'] = _vf_str
    sys.dont_write_bytecode = True
    sys.meta_path.insert(0, _Finder())
    _installed = True
