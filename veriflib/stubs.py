"""Environment stubs: files, processes, randomness.  Each is an assumption listed in evidence.

Stubs are installed *by identity*: every module-global in saml2_tophat.* that IS the original
object is replaced (``from sigver import make_temp`` copies the binding).
"""
import sys

STUB_NOTES = [
    "sigver.make_temp -> in-memory FakeTemp (file name carries the content id); CrossHair blocks file writes",
    "s_utils.rndstr/rndbytes/sid -> deterministic counter (random.SystemRandom is unsupported under CrossHair)",
]


class FakeTemp:
    """Stand-in for NamedTemporaryFile: keeps content in memory, .name is a fake path."""
    _n = [0]
    REG = {}

    def __init__(self, content=b"", suffix=""):
        FakeTemp._n[0] += 1
        self.name = "/nonexistent/verif-tmp-%d%s" % (FakeTemp._n[0], suffix)
        self.content = content
        FakeTemp.REG[self.name] = self

    def write(self, data):
        self.content = self.content + data if self.content else data

    def seek(self, pos):
        pass

    def read(self):
        return self.content

    def close(self):
        FakeTemp.REG.pop(self.name, None)

    def flush(self):
        pass

    def __enter__(self):
        return self

    def __exit__(self, *a):
        self.close()


def fake_make_temp(string, suffix='', decode=True, delete=True):
    # content kept undecoded: base64 is C code and the cert text is what the stub backends compare
    ntf = FakeTemp(string, suffix)
    return ntf, ntf.name


class Counter:
    n = 0


def fake_rndstr(size=16, alphabet=""):
    Counter.n += 1
    s = "r%d" % Counter.n
    return s + "x" * max(0, size - len(s))


def fake_rndbytes(size=16, alphabet=""):
    return fake_rndstr(size, alphabet).encode("utf-8")


def fake_sid():
    return "id-" + fake_rndstr(17)


def replace_by_identity(orig, new):
    n = 0
    for name, mod in list(sys.modules.items()):
        if mod is None or not (name == "saml2_tophat" or name.startswith("saml2_tophat.")):
            continue
        d = getattr(mod, "__dict__", None)
        if not d:
            continue
        for k, v in list(d.items()):
            if v is orig:
                d[k] = new
                n += 1
    return n


def install():
    import saml2_tophat.sigver as sv
    import saml2_tophat.s_utils as su
    # make sure the usual importers are loaded before walking sys.modules
    for m in ("entity", "client", "server", "response", "request", "mdstore", "assertion", "pack"):
        try:
            __import__("saml2_tophat." + m)
        except Exception:
            pass
    replace_by_identity(sv.make_temp, fake_make_temp)
    replace_by_identity(su.rndstr, fake_rndstr)
    replace_by_identity(su.rndbytes, fake_rndbytes)
    replace_by_identity(su.sid, fake_sid)
