"""Model of the external xmlsec1 process as seen by saml2_tophat.sigver: Popen, the --output
temporary file and os.unlink are replaced by fakes driven by a script of invocation outcomes
(each an arbitrary value of its type: return code, stdout, stderr, output-file text, or 'cannot
be started')."""


class SBytes:
    """Duck-typed bytes carrying a (possibly symbolic) str."""

    def __init__(self, s):
        self.s = s

    def decode(self, *a, **k):
        return self.s

    def __bool__(self):
        return bool(len(self.s) > 0)

    def __len__(self):
        return len(self.s)

    def __eq__(self, o):
        return isinstance(o, SBytes) and o.s == self.s

    def __hash__(self):
        return 0


class Script:
    """outcomes: list of dict(rc, out, err, output, oserror)"""
    calls = []
    outcomes = []
    current_output = ""

    @classmethod
    def reset(cls, outcomes):
        cls.calls = []
        cls.outcomes = list(outcomes)
        cls.current_output = ""


class FakePopen:
    def __init__(self, com_list, stderr=None, stdout=None, **kw):
        i = len(Script.calls)
        Script.calls.append(list(com_list))
        o = Script.outcomes[i] if i < len(Script.outcomes) else Script.outcomes[-1]
        if o.get("oserror"):
            raise OSError(2, "No such file or directory")
        self.o = o
        self.com = list(com_list)
        self.returncode = None

    def communicate(self, *a, **k):
        self.returncode = self.o.get("rc", 0)
        # the tool writes its result into the file named after --output; a run that produces
        # nothing leaves that file as it was (output None) - a fresh temporary file is empty
        out = self.o.get("output", "")
        name = None
        if "--output" in self.com:
            name = self.com[self.com.index("--output") + 1]
        if out is not None and name in FakeNTF.FILES:
            FakeNTF.FILES[name].content = out
        return SBytes(self.o.get("out", "")), SBytes(self.o.get("err", ""))


class FakeNTF:
    n = 0
    FILES = {}

    def __init__(self, suffix="", delete=True, **kw):
        FakeNTF.n += 1
        self.name = "/nonexistent/verif-out-%d%s" % (FakeNTF.n, suffix)
        self.content = ""
        self.closed = False
        FakeNTF.FILES[self.name] = self

    def __enter__(self):
        return self

    def __exit__(self, *a):
        return False

    def seek(self, pos):
        pass

    def read(self):
        return SBytes(self.content)

    def truncate(self, *a):
        self.content = ""

    def tell(self):
        return 0

    def write(self, data):
        pass

    def close(self):
        self.closed = True

    def flush(self):
        pass


class FakeOS:
    def __init__(self, real):
        self._real = real

    def __getattr__(self, k):
        return getattr(self._real, k)

    def unlink(self, path):
        pass


def install():
    import saml2_tophat.sigver as sv
    sv.Popen = FakePopen
    sv.NamedTemporaryFile = FakeNTF
    if not isinstance(sv.os, FakeOS):
        sv.os = FakeOS(sv.os)
