"""Partitioned CrossHair runner: generates wrapper files per (condition, partition), runs
`crosshair check` on each in parallel, parses verdicts, replays counterexamples concretely,
applies known findings, writes evidence.

Exit codes: 0 held / only known findings; 1 VIOLATION (replayed, unlisted); 3 inconclusive,
vacuous, or non-replaying counterexample (harness error).
"""
import ast
import concurrent.futures as cf
import dataclasses
import importlib
import json
import os
import re
import shutil
import subprocess
import sys
import tempfile
import time

VERIF = os.path.dirname(os.path.dirname(os.path.abspath(__file__)))
VENV_PY = os.path.join(VERIF, ".venv", "bin", "python")
CROSSHAIR = os.path.join(VERIF, ".venv", "bin", "crosshair")
NCPU = int(os.environ.get("VERIF_JOBS", os.cpu_count() or 4))


@dataclasses.dataclass
class Cond:
    name: str
    fn: str                      # harness function: fn(**params) -> (ok, reached)
    params: list                 # [(name, type_str)]
    pre: list = dataclasses.field(default_factory=list)
    partitions: dict = dataclasses.field(default_factory=dict)   # tier -> [ {param: value} ]
    timeout: dict = dataclasses.field(default_factory=lambda: {"quick": 120, "thorough": 600})
    path_timeout: float = 60.0
    expect: str = "confirmed"    # or "refuted" (candidate lemma expected to fail), or "either"
    doc: str = ""
    functions: list = dataclasses.field(default_factory=list)
    bounds: str = ""
    twin: bool = True
    tiers: tuple = ("quick", "thorough")

    def parts(self, tier):
        p = self.partitions.get(tier)
        if p is None:
            p = self.partitions.get("quick") or [{}]
        k = int(os.environ.get("VERIF_PART_STRIDE", "1"))      # measurement aid only: every k-th partition
        return p[::k] if k > 1 else p


WRAPPER = '''\
import sys, os, atexit
sys.path.insert(0, {verif!r})
import {module} as _h
_N = [0]
_Q = [0]
_B = [0]
try:
    import crosshair.statespace as _ss
    _osat = _ss.solver_is_sat

    def _csat(solver, *e):
        _Q[0] += 1
        return _osat(solver, *e)
    _ss.solver_is_sat = _csat
    _ocp = _ss.StateSpace.choose_possible

    def _ccp(self, *a, **k):
        _B[0] += 1
        return _ocp(self, *a, **k)
    _ss.StateSpace.choose_possible = _ccp
except Exception:
    pass
atexit.register(lambda: sys.stderr.write("PATHS %d QUERIES %d BRANCHES %d\\n" % (_N[0], _Q[0], _B[0])))


def w({sig}) -> bool:
    """
{pre}
    post: _
    """
    _N[0] += 1
    r = _h.{fn}({call})
    return {sel}
'''


def _gen(module, cond, fixed, twin, path):
    free = [(n, t) for (n, t) in cond.params if n not in fixed]
    sig = ", ".join("%s: %s" % (n, t) for n, t in free)
    call = ", ".join("%s=%s" % (n, repr(fixed[n]) if n in fixed else n) for n, _ in cond.params)
    pres = []
    for p in cond.pre:
        names = {n.id for n in ast.walk(ast.parse(p, mode="eval")) if isinstance(n, ast.Name)}
        if names & set(fixed):
            # substitute fixed values textually via a lambda-free rewrite: evaluate if fully fixed
            free_names = names & {n for n, _ in free}
            if not free_names:
                if not eval(p, {}, dict(fixed)):
                    return None   # partition excluded by precondition
                continue
            tree = ast.parse(p, mode="eval")

            class S(ast.NodeTransformer):
                def visit_Name(self, node):
                    if node.id in fixed:
                        return ast.copy_location(ast.Constant(fixed[node.id]), node)
                    return node
            p = ast.unparse(S().visit(tree))
        pres.append("    pre: " + p)
    if not free:
        # CrossHair needs at least one argument to be interesting; add a dummy
        sig = "_dummy: bool"
    src = WRAPPER.format(verif=VERIF, module=module, sig=sig, pre="\n".join(pres), fn=cond.fn,
                         call=call, sel=("not r[1]" if twin else "r[0]"))
    with open(path, "w") as f:
        f.write(src)
    return [n for n, _ in free]


_MSG = re.compile(r"^(?P<file>.*?):(?P<line>\d+): (?P<kind>error|info|warning): (?P<msg>.*)$")


def _parse_call(text):
    """'w(7, 'ab', [1])' -> list of python values (None if not literal)."""
    try:
        node = ast.parse(text.strip(), mode="eval").body
        if not isinstance(node, ast.Call):
            return None
        vals = [ast.literal_eval(a) for a in node.args]
        kw = {k.arg: ast.literal_eval(k.value) for k in node.keywords}
        return vals, kw
    except Exception:
        return None


def _run_one(job):
    """job: dict(file, timeout, path_timeout, free) -> result dict"""
    t0 = time.time()
    cmd = [CROSSHAIR, "check", "--report_all", "--per_condition_timeout", str(job["timeout"]),
           "--per_path_timeout", str(job["path_timeout"]), job["file"]]
    env = dict(os.environ)
    env["PYTHONHASHSEED"] = "0"
    env.pop("VERIF_REPLAY", None)
    env.pop("VERIF_NO_CUT", None)
    hard = job["timeout"] * 2 + 120
    try:
        p = subprocess.run(cmd, capture_output=True, text=True, timeout=hard, env=env, cwd=VERIF)
        out, err, rc = p.stdout, p.stderr, p.returncode
    except subprocess.TimeoutExpired as e:
        out = (e.stdout or b"").decode() if isinstance(e.stdout, bytes) else (e.stdout or "")
        err = (e.stderr or b"").decode() if isinstance(e.stderr, bytes) else (e.stderr or "")
        rc = -9
    res = {"file": job["file"], "rc": rc, "wall": round(time.time() - t0, 2), "verdict": "inconclusive",
           "msg": "", "args": None, "paths": 0, "queries": 0, "branches": 0, "key": job["key"]}
    m = re.search(r"PATHS (\d+) QUERIES (\d+) BRANCHES (\d+)", err)
    if m:
        res["paths"] = int(m.group(1))
        res["queries"] = int(m.group(2))
        res["branches"] = int(m.group(3))
    lines = [l for l in out.splitlines() if _MSG.match(l)]
    if not lines:
        res["msg"] = "no verdict line; rc=%s stderr=%s" % (rc, err[-800:])
        return res
    g = _MSG.match(lines[0]).groupdict()
    msg = g["msg"]
    res["msg"] = msg
    if g["kind"] == "info" and msg.startswith("Confirmed over all paths"):
        res["verdict"] = "confirmed"
    elif g["kind"] == "error":
        pos = msg.find("when calling w(")
        if pos >= 0:
            call_text = msg[pos + len("when calling "):]
            cut = call_text.rfind(" (which returns ")
            if cut > 0:
                call_text = call_text[:cut]
            pc = _parse_call(call_text)
            if pc is not None:
                vals, kw = pc
                args = dict(zip(job["free"], vals))
                args.update(kw)
                res["args"] = args
        if msg.startswith("false when calling"):
            res["verdict"] = "refuted"
        else:
            res["verdict"] = "exception"
    else:
        res["verdict"] = "inconclusive"   # Not confirmed / Unable to meet precondition
    return res


def replay(module, cond_name, args):
    """Re-execute the condition concretely in a plain interpreter on uncut code."""
    env = dict(os.environ)
    env["VERIF_REPLAY"] = "1"
    env["VERIF_NO_CUT"] = "1"
    p = subprocess.run([VENV_PY, "-W", "ignore", "-m", "veriflib.replay", module, cond_name,
                        json.dumps(args)], capture_output=True, text=True, env=env, cwd=VERIF,
                       timeout=600)
    last = [l for l in p.stdout.splitlines() if l.startswith("REPLAY ")]
    if not last:
        return {"status": "error", "detail": (p.stdout + p.stderr)[-1500:]}
    return json.loads(last[-1][7:])


def load_known(prop):
    path = os.path.join(VERIF, "known_findings.json")
    if not os.path.exists(path):
        return []
    with open(path) as fh:
        data = json.load(fh)
    return [e for e in data.get("findings", []) if e.get("property") == prop and e.get("status") == "known"]


def match_known(entry, cond_name, args, detail):
    m = entry.get("match", {})
    if m.get("condition") and m["condition"] != cond_name:
        return False
    for k, v in m.get("args", {}).items():
        if isinstance(v, dict) and "in" in v:
            if args.get(k) not in v["in"]:
                return False
        elif isinstance(v, dict) and "pred" in v:
            try:
                if not eval(v["pred"], {"__builtins__": {"len": len, "any": any, "all": all, "set": set, "str": str}},
                            {"x": args.get(k), "args": args}):
                    return False
            except Exception:
                return False
        elif args.get(k) != v:
            return False
    if m.get("pred"):
        try:
            if not eval(m["pred"], {"__builtins__": {"len": len, "any": any, "all": all, "set": set, "str": str}},
                        {"args": args, "detail": detail}):
                return False
        except Exception:
            return False
    return True


def run_property(prop, module, conds, tier, seed=0, extra_evidence=None, extra_results=None,
                 assumptions=None, finish=True):
    """Run all CrossHair conditions of a property. Returns (exit_code, evidence_dict)."""
    t0 = time.time()
    subprocess.run([os.path.join(VERIF, "tools", "bootstrap.sh")], check=True)
    scratch = tempfile.mkdtemp(prefix="verif-%s-" % prop)
    jobs = []
    try:
        for c in conds:
            if tier not in c.tiers:
                continue
            parts = c.parts(tier)
            for k, fixed in enumerate(parts):
                for twin in ((False, True) if c.twin else (False,)):
                    fn = os.path.join(scratch, "w_%s_%d%s.py" % (c.name, k, "_twin" if twin else ""))
                    free = _gen(module, c, fixed, twin, fn)
                    if free is None:
                        continue
                    jobs.append({"file": fn, "timeout": c.timeout.get(tier, 120),
                                 "path_timeout": c.path_timeout, "free": free,
                                 "key": (c.name, k, twin), "fixed": fixed})
        import random
        random.Random(seed).shuffle(jobs)
        # long ones first helps wall time: main conds before twins
        jobs.sort(key=lambda j: (j["key"][2], -j["timeout"]))
        results = []
        with cf.ThreadPoolExecutor(max_workers=NCPU) as ex:
            for r in ex.map(_run_one, jobs):
                results.append(r)
    finally:
        shutil.rmtree(scratch, ignore_errors=True)

    if os.environ.get("VERIF_VERBOSE"):
        for r in sorted(results, key=lambda r: r["key"]):
            sys.stderr.write("JOB %s %s paths=%d wall=%.0fs %s\n" % (r["key"], r["verdict"], r["paths"], r["wall"], r["msg"][:150]))
    bycond = {c.name: c for c in conds}
    jobby = {j["key"]: j for j in jobs}
    # twin witnesses are concrete inputs reaching the asserting branch: replay each on the real
    # (uncut, real-clock) implementation; the property must hold there too
    twin_jobs = []
    for r in results:
        if r["key"][2] and r["verdict"] == "refuted" and r["args"] is not None:
            full = dict(jobby[r["key"]]["fixed"])
            full.update(r["args"])
            twin_jobs.append((r, full))
    with cf.ThreadPoolExecutor(max_workers=NCPU) as ex:
        for (r, full), rp in zip(twin_jobs, ex.map(lambda t: replay(module, t[0]["key"][0], t[1]), twin_jobs)):
            r["twin_replay"] = rp
            r["twin_args"] = full
    known = load_known(prop)
    code = 0
    lines = []
    samples = []
    n_confirmed = n_twin = n_oblig = 0
    traces_validated = 0
    twin_samples = []
    queries = branches = 0
    paths = 0
    violations = 0
    known_hit = []
    inconclusive = []
    replay_dir = os.path.join(os.environ.get("VERIF_EVIDENCE_DIR") or os.path.join(VERIF, "evidence"), "replays", prop)
    for r in results:
        name, k, twin = r["key"]
        c = bycond[name]
        fixed = jobby[r["key"]]["fixed"]
        paths += r["paths"]
        queries += r.get("queries", 0)
        branches += r.get("branches", 0)
        if twin:
            if r["verdict"] in ("refuted",):
                n_twin += 1
                rp = r.get("twin_replay")
                if rp is not None:
                    if rp.get("status") == "holds" and rp.get("reached"):
                        traces_validated += 1
                        if len(twin_samples) < 4:
                            twin_samples.append({"condition": name, "witness": r.get("twin_args"), "real_implementation": rp.get("detail", "")[:200]})
                    elif rp.get("status") == "violates":
                        # the solver-produced witness, run on the real (uncut, real-clock) code, breaks the property:
                        # the symbolic run missed it because the executor neutralises something the real run has
                        # (e.g. functools caches), the replay is the ground truth
                        full = r.get("twin_args")
                        hit = [e for e in known if match_known(e, name, full, rp.get("detail", ""))]
                        if hit:
                            known_hit.append((hit[0], name, full))
                        else:
                            os.makedirs(replay_dir, exist_ok=True)
                            rpath = os.path.join(replay_dir, "%s_%d_witness.json" % (name, k))
                            with open(rpath, "w") as fh:
                                json.dump({"property": prop, "module": module, "condition": name, "args": full,
                                           "crosshair": "reachability witness; violation only on the real implementation", "replay": rp}, fh, indent=1)
                            lines.append("VIOLATION property=%s replay=%s" % (prop, rpath))
                            violations += 1
                            samples.append({"condition": name, "partition": jobby[r["key"]]["fixed"], "verdict": "VIOLATION (witness replay)",
                                            "witness": full, "detail": rp.get("detail", "")[:300]})
                    else:
                        inconclusive.append("%s[%d] reachability witness %r behaves differently on the real implementation (%s: %s)"
                                            % (name, k, r.get("twin_args"), rp.get("status"), rp.get("detail", "")[:300]))
            else:
                inconclusive.append("%s[%d] twin not witnessed (%s: %s)" % (name, k, r["verdict"], r["msg"][:200]))
            continue
        n_oblig += 1
        full = dict(fixed)
        if r["args"]:
            full.update(r["args"])
        if r["verdict"] == "confirmed":
            if c.expect == "refuted":
                inconclusive.append("%s[%d] expected a counterexample (candidate lemma) but was confirmed" % (name, k))
            n_confirmed += 1
            if len(samples) < 6:
                samples.append({"condition": name, "partition": fixed, "verdict": "confirmed over all paths",
                                "paths": r["paths"], "wall_s": r["wall"]})
        elif r["verdict"] in ("refuted", "exception"):
            if c.expect in ("refuted", "either"):
                n_confirmed += 1
                samples.append({"condition": name, "partition": fixed, "verdict": "candidate lemma refuted (expected)",
                                "witness": full})
                continue
            if r["args"] is None:
                inconclusive.append("%s[%d] counterexample with unparseable arguments: %s" % (name, k, r["msg"][:300]))
                continue
            rp = replay(module, name, full)
            if rp.get("status") == "violates":
                hit = [e for e in known if match_known(e, name, full, rp.get("detail", ""))]
                if hit:
                    known_hit.append((hit[0], name, full))
                    n_confirmed += 0
                    samples.append({"condition": name, "partition": fixed, "verdict": "known finding " + hit[0]["id"],
                                    "witness": full})
                else:
                    os.makedirs(replay_dir, exist_ok=True)
                    rpath = os.path.join(replay_dir, "%s_%d.json" % (name, k))
                    traces_validated += 1
                    with open(rpath, "w") as fh:
                        json.dump({"property": prop, "module": module, "condition": name, "args": full,
                                   "crosshair": r["msg"], "replay": rp}, fh, indent=1)
                    lines.append("VIOLATION property=%s replay=%s" % (prop, rpath))
                    violations += 1
                    samples.append({"condition": name, "partition": fixed, "verdict": "VIOLATION", "witness": full,
                                    "detail": rp.get("detail", "")[:300]})
            else:
                inconclusive.append("%s[%d] counterexample %r did not replay (%s): %s"
                                    % (name, k, full, rp.get("status"), rp.get("detail", "")[:300]))
        else:
            inconclusive.append("%s[%d] %s: %s (wall %.0fs, paths %d)" % (name, k, r["verdict"], r["msg"][:200], r["wall"], r["paths"]))

    if extra_results:
        # extra_results: dict(obligations, discharged, inconclusive[list], violations[list of (path)], samples, known_hit)
        n_oblig += extra_results.get("obligations", 0)
        n_confirmed += extra_results.get("discharged", 0)
        inconclusive += extra_results.get("inconclusive", [])
        for rpath in extra_results.get("violations", []):
            lines.append("VIOLATION property=%s replay=%s" % (prop, rpath))
            violations += 1
        samples += extra_results.get("samples", [])
        known_hit += extra_results.get("known_hit", [])
        paths += extra_results.get("evaluations", 0)

    seen = set()
    for e, name, full in known_hit:
        if e["id"] in seen:
            continue
        seen.add(e["id"])
        print("KNOWN-FINDING: property=%s %s [%s]" % (prop, e["what"], e["id"]))
    for l in lines:
        print(l)
    for i in inconclusive:
        print("INCONCLUSIVE: property=%s %s" % (prop, i))
    if violations:
        code = 1
    elif inconclusive:
        code = 3
    ev = {
        "property_id": prop, "tier": tier, "seed": seed, "level": "model_checking",
        "coverage": {
            "states": max(paths, 1),
            "transitions": max(branches, 1),
            "traces_validated_against_impl": traces_validated,
            "solver_queries": queries,
            "evaluations": max(paths, 1),
            "distinct_nontrivial": n_confirmed,
            "rule": "states = complete execution paths (terminal symbolic states) explored by CrossHair; transitions = solver-decided branch "
                    "decisions taken along them (StateSpace.choose_possible calls); solver_queries = z3 check() calls; traces_validated_against_impl = "
                    "reachability witnesses and counterexamples re-executed concretely on the uncut code with the real time functions; evaluations = execution paths explored by CrossHair (each decided by z3) summed over all "
                    "(condition, partition) runs plus solver queries of hand-built encodings; distinct_nontrivial = "
                    "(condition, partition) obligations with verdict 'Confirmed over all paths' (or solver unsat) "
                    "whose reachability twin produced a witness",
            "samples": samples[:12] + twin_samples,
            "obligations": n_oblig, "discharged": n_confirmed, "twins_witnessed": n_twin,
            "known_findings_hit": sorted(seen),
            "inconclusive": inconclusive,
            "functions_encoded": sorted({f for c in conds for f in c.functions}),
            "bounds": {c.name: c.bounds for c in conds if tier in c.tiers},
            "solver_wall_s": round(sum(r["wall"] for r in results), 1),
            "engine": "crosshair-tool 0.0.110 + z3 (symbolic execution of the real functions, per path)",
        },
        "assumptions": (assumptions or []),
        "wall_s": round(time.time() - t0, 1),
        "violations": violations,
    }
    if extra_evidence:
        ev["coverage"].update(extra_evidence)
    if finish:
        write_evidence(prop, ev)
        print("property=%s tier=%s obligations=%d discharged=%d twins=%d paths=%d known=%d violations=%d inconclusive=%d wall=%.0fs exit=%d"
              % (prop, tier, n_oblig, n_confirmed, n_twin, paths, len(seen), violations, len(inconclusive), time.time() - t0, code))
    return code, ev


def write_evidence(prop, ev):
    # VERIF_EVIDENCE_DIR: only for my own seed sweeps, so that runs against patched scratch
    # worktrees do not overwrite the evidence of the real tree
    d = os.environ.get("VERIF_EVIDENCE_DIR") or os.path.join(VERIF, "evidence")
    os.makedirs(d, exist_ok=True)
    with open(os.path.join(d, prop + ".json"), "w") as f:
        json.dump(ev, f, indent=1, default=str)
